import GrassProofs.Lemmas.SerializeTree
/-
  Helper lemmas for the full-subset reader `readTree` (Grass/Serialize.lean):
  * `Reads` and the generic reader steps (items, blocks, comments);
  * `stmt_reads` / `kids_reads` (mutual induction): every statement rendering is read back as its
    canonical node; `top_reads`, `readTree_serialize`: print → read round trip;
  * `FS` (flat + squeezed text) toolkit, `FS_quote`, selector / value / media independence of the
    style, `g_readable`, `g_canon`: the canonical tree does not depend on the style.
-/
namespace Grass.Serialize
set_option linter.unusedSimpArgs false
set_option linter.unusedVariables false

def Stmts.isNil : Stmts → Bool
  | .nil => true
  | .cons _ _ => false

/-! ## lemmas -/

def allWs (w : Str) : Bool := w.all isWsC

theorem skipWs_ws (w x : Str) (h : allWs w = true) : skipWs (w ++ x) = skipWs x := by
  induction w with
  | nil => rfl
  | cons c cs ih =>
    simp only [allWs, List.all_cons, Bool.and_eq_true] at h
    simp [skipWs, h.1, ih (by simpa [allWs] using h.2)]

theorem skipWs_head (x : Str) (h : headOk x = true) : skipWs x = x := by
  cases x with
  | nil => simp [headOk] at h
  | cons c cs =>
    simp only [headOk, Bool.and_eq_true, Bool.not_eq_true'] at h
    simp [skipWs, h.2]

/-! ### the normaliser `nm` -/

theorem nrun_append (P : Char → Bool) (s : NS) (a b : Str) :
    nrun P s (a ++ b) = ((nrun P s a).1 ++ (nrun P (nrun P s a).2 b).1, (nrun P (nrun P s a).2 b).2) := by
  induction a generalizing s with
  | nil => simp [nrun]
  | cons c cs ih => simp [nrun, ih, List.append_assoc]

theorem nrun_mode (P : Char → Bool) (s : NS) (x : Str) : (nrun P s x).2.mode = mrun s.mode x := by
  induction x generalizing s with
  | nil => simp [nrun, mrun]
  | cons c cs ih =>
    simp only [nrun, mrun, ih]
    congr 1
    simp only [nstep]
    split
    · split
      · rfl
      · split <;> rfl
    · rfl

theorem flat_mrun (m : Mode) (x : Str) (h : flatFrom m x = true) : mrun m x = .normal := by
  induction x generalizing m with
  | nil => simpa [flatFrom, mrun] using h
  | cons c cs ih =>
    simp only [flatFrom, Bool.and_eq_true] at h
    simpa [mrun] using ih _ h.2

/-- whitespace after punctuation / at the start is ignored -/
theorem nrun_ws_idle (P : Char → Bool) (s : NS) (w : Str) (hw : allWs w = true) (hm : s.mode = .normal)
    (hk : s.k ≠ .word) (hp : s.pend = false) : nrun P s w = ([], s) := by
  induction w with
  | nil => simp [nrun]
  | cons c cs ih =>
    simp only [allWs, List.all_cons, Bool.and_eq_true] at hw
    obtain ⟨m, k, p⟩ := s
    simp only at hm hk hp
    subst hm; subst hp
    have hc : c = ' ' ∨ c = '\n' := by simpa [isWsC] using hw.1
    have hms : mstep .normal c = .normal := by rcases hc with e | e <;> subst e <;> simp [mstep, mstepN]
    have hkk : (k == Kind.word) = false := by cases k <;> simp_all
    have := ih (by simpa [allWs] using hw.2)
    simp [nrun, nstep, Mode.isTop, hw.1, hms, hkk, this]

/-- whitespace in general: no output, only the pending flag may be set -/
theorem nrun_ws (P : Char → Bool) (s : NS) (w : Str) (hw : allWs w = true) (hm : s.mode = .normal) :
    ∃ p, nrun P s w = ([], ⟨.normal, s.k, p⟩) := by
  induction w generalizing s with
  | nil => exact ⟨s.pend, by obtain ⟨m, k, p⟩ := s; simp at hm; subst hm; simp [nrun]⟩
  | cons c cs ih =>
    simp only [allWs, List.all_cons, Bool.and_eq_true] at hw
    obtain ⟨m, k, p⟩ := s
    simp only at hm; subst hm
    have hc : c = ' ' ∨ c = '\n' := by simpa [isWsC] using hw.1
    have hms : mstep .normal c = .normal := by rcases hc with e | e <;> subst e <;> simp [mstep, mstepN]
    obtain ⟨p', hp'⟩ := ih ⟨.normal, k, p || k == .word⟩ (by simpa [allWs] using hw.2) rfl
    exact ⟨p', by simp [nrun, nstep, Mode.isTop, hw.1, hms, hp']⟩

/-- a punctuation character cancels whatever was pending -/
theorem nrun_punct (P : Char → Bool) (k : Kind) (p : Bool) (c : Char) (hP : P c = true) (hw : isWsC c = false) :
    nrun P ⟨.normal, k, p⟩ [c] = ([c], ⟨mstep .normal c, .punct, false⟩) := by
  simp [nrun, nstep, Mode.isTop, hP, hw]


theorem hdr_start (H y : Str) (h : headOk H = true) :
    skipWs (H ++ y) = H ++ y ∧ (H ++ y).isEmpty = false ∧ startsWith (H ++ y) ['/', '*'] = false := by
  cases H with
  | nil => simp [headOk] at h
  | cons c cs =>
    simp only [headOk, Bool.and_eq_true, Bool.not_eq_true', bne_iff_ne, ne_eq] at h
    refine ⟨by simp [skipWs, h.2], by simp, ?_⟩
    simp only [startsWith, List.cons_append, List.isPrefixOf, Bool.and_eq_false_imp, beq_iff_eq]
    intro e; exact absurd e.symm h.1


theorem commentBody_append (b rest : Str) (h : commentBody b = some (b, [])) :
    commentBody (b ++ rest) = some (b, rest) := by
  induction b with
  | nil => simp [commentBody] at h
  | cons c r ih =>
    simp only [commentBody] at h
    by_cases hc : (c = '*' && r.head? = some '/') = true
    · simp only [hc, if_true, Option.some.injEq, Prod.mk.injEq] at h
      -- b = ['*', '/'] and r.drop 1 = []
      obtain ⟨h1, h2⟩ := h
      have hr : r = ['/'] := by
        have := (List.cons.injEq _ _ _ _).mp h1
        exact this.2.symm
      subst hr
      simp at hc
      subst hc
      simp [commentBody]
    · have hc' : (c = '*' && r.head? = some '/') = false := by simpa using hc
      simp only [hc', Bool.false_eq_true, if_false, Option.map_eq_some_iff] at h
      obtain ⟨x, hx, he⟩ := h
      obtain ⟨x1, x2⟩ := x
      simp only [Prod.mk.injEq, List.cons.injEq, true_and] at he
      obtain ⟨e1, e2⟩ := he
      rw [e1, e2] at hx
      have := ih hx
      -- the head test on (r ++ rest) agrees with the one on r because r is non-empty
      have hne : r ≠ [] := by intro e; subst e; simp [commentBody] at hx
      have hh : (r ++ rest).head? = r.head? := by cases r <;> simp_all
      simp [commentBody, hh, hc', this]


theorem commentTok_shape (c : Str) (h : commentTok c = true) :
    ∃ b, c = '/' :: '*' :: b ∧ commentBody b = some (b, []) := by
  simp only [commentTok, beq_iff_eq] at h
  unfold takeComment at h
  split at h
  · rename_i r
    simp only [Option.map_eq_some_iff] at h
    obtain ⟨x, hx, he⟩ := h
    obtain ⟨x1, x2⟩ := x
    simp only [Prod.mk.injEq, List.cons.injEq, true_and] at he
    obtain ⟨e1, e2⟩ := he
    rw [e1, e2] at hx
    exact ⟨r, rfl, hx⟩
  · simp at h


theorem takeComment_append (c rest : Str) (h : commentTok c = true) :
    takeComment (c ++ rest) = some (c, rest) ∧ headOk c = false ∧ startsWith (c ++ rest) ['/', '*'] = true ∧
      skipWs (c ++ rest) = c ++ rest ∧ 2 ≤ c.length := by
  obtain ⟨b, hb, hx⟩ := commentTok_shape c h
  subst hb
  refine ⟨?_, by simp [headOk], by simp [startsWith, List.isPrefixOf], by simp [skipWs, isWsC], by simp⟩
  simp [takeComment, commentBody_append _ rest hx]


theorem allWs_indent (st : Style) (n : Nat) : allWs (indentOut st n) = true := by
  unfold indentOut; split <;> simp [allWs, spaces, isWsC]


theorem allWs_optNl (st : Style) : allWs (optNl st) = true := by
  cases st <;> simp [optNl, Style.isCompressed, allWs, isWsC]


theorem allWs_append (a b : Str) (ha : allWs a = true) (hb : allWs b = true) : allWs (a ++ b) = true := by
  simp_all [allWs]


theorem not_invisible_of_written (st : Style) (ind : Nat) (s : Stmt) (h : (visitStmt st ind s).1 = true) :
    s.isInvisible = false := by
  cases hi : s.isInvisible
  · rfl
  · rw [visit_invisible st ind s hi] at h; simp at h


theorem allWs_nil : allWs [] = true := rfl


theorem childrenLoop_cons (st : Style) (ind : Nat) (s : Stmt) (ss : Stmts) :
    childrenLoop st ind (.cons s ss) =
      (if (visitStmt st ind s).1 then
        (visitStmt st ind s).2 ++ childSemi st ss.isNil s ++ optNl st
       else []) ++ childrenLoop st ind ss := by
  conv => lhs; unfold childrenLoop
  cases ss <;> rfl


theorem consOpt_comment (c : Str) (ns : RNodes) :
    consOpt (if isLoud c then some (.comment c) else none) ns = consComment c ns := by
  unfold consComment; split <;> simp [consOpt]


theorem skipWs_allWs (w : Str) (h : allWs w = true) : skipWs w = [] := by
  have := skipWs_ws w [] h
  simpa [skipWs] using this


theorem ws_flat (w : Str) (h : allWs w = true) : flatFrom .normal w = true ∧ sqFrom .normal w = [] := by
  induction w with
  | nil => simp [flatFrom, sqFrom]
  | cons c cs ih =>
    simp only [allWs, List.all_cons, Bool.and_eq_true] at h
    have hc : c = ' ' ∨ c = '\n' := by simpa [isWsC] using h.1
    have := ih (by simpa [allWs] using h.2)
    rcases hc with e | e <;> subst e <;>
      simp [flatFrom, sqFrom, Mode.isTop, structural, isWsC, mstep, mstepN, this]



theorem scanSeg_flat (m : Mode) (x rest : Str) (h : flatFrom m x = true) :
    scanSeg m (x ++ rest) =
      (x ++ (scanSeg .normal rest).1, (scanSeg .normal rest).2.1, (scanSeg .normal rest).2.2) := by
  induction x generalizing m with
  | nil =>
    simp only [flatFrom, beq_iff_eq] at h
    subst h; simp
  | cons c cs ih =>
    simp only [flatFrom, Bool.and_eq_true, Bool.not_eq_true'] at h
    simp only [List.cons_append, scanSeg, h.1, Bool.false_eq_true, if_false, ih _ h.2]

theorem scanSeg_ws (w rest : Str) (h : allWs w = true) :
    scanSeg .normal (w ++ rest) = (w ++ (scanSeg .normal rest).1, (scanSeg .normal rest).2.1, (scanSeg .normal rest).2.2) :=
  scanSeg_flat _ _ _ (ws_flat w h).1

theorem nm_trailing_ws (P : Char → Bool) (H w : Str) (hH : flat H = true) (hw : allWs w = true) :
    nm P (H ++ w) = nm P H := by
  simp only [nm, nrun_append]
  have hm : (nrun P NS.init H).2.mode = .normal := by rw [nrun_mode]; exact flat_mrun _ _ hH
  obtain ⟨p, hp⟩ := nrun_ws P _ w hw hm
  rw [hp]; simp

theorem nm_hdr_ne (P : Char → Bool) (H : Str) (h : hdrOk H = true) : (nm P H).isEmpty = false := by
  simp only [hdrOk, Bool.and_eq_true] at h
  cases H with
  | nil => simp [headOk] at h
  | cons c cs =>
    have := h.2
    simp only [headOk, Bool.and_eq_true, Bool.not_eq_true'] at this
    simp only [nm, nrun, nstep, NS.init, Mode.isTop, this.2, Bool.false_eq_true, if_false, if_true]
    split <;> simp

/-! ### `Reads`: what `readNodes` returns for every sufficient fuel -/

def Reads (top : Bool) (text : Str) (ns : RNodes) (rest : Str) : Prop :=
  rest.length ≤ text.length ∧ ∀ f, text.length < f → readNodes f top text = some (ns, rest)

theorem readNodes_skip (f : Nat) (top : Bool) (a b : Str) (h : skipWs a = skipWs b) :
    readNodes f top a = readNodes f top b := by
  cases f with
  | zero => rfl
  | succ f => simp only [readNodes, h]

theorem reads_ws (top : Bool) (w x : Str) (ns : RNodes) (rest : Str) (hw : allWs w = true)
    (h : Reads top x ns rest) : Reads top (w ++ x) ns rest := by
  refine ⟨by have := h.1; simp; omega, fun f hf => ?_⟩
  rw [readNodes_skip f top (w ++ x) x (skipWs_ws w x hw)]
  exact h.2 f (by simp at hf; omega)

theorem reads_eof (w : Str) (hw : allWs w = true) : Reads true w .nil [] := by
  refine ⟨by simp, fun f hf => ?_⟩
  cases f with
  | zero => omega
  | succ f => simp [readNodes, skipWs_allWs w hw]

theorem scanSeg_delim (c : Char) (r : Str) (h : structural c = true) :
    scanSeg .normal (c :: r) = ([], delimOf c, r) := by
  simp [scanSeg, Mode.isTop, h]

theorem reads_close (rest : Str) : Reads false ('}' :: rest) .nil rest := by
  refine ⟨by simp, fun f hf => ?_⟩
  cases f with
  | zero => omega
  | succ f =>
    have : scanSeg .normal ('}' :: rest) = ([], .cls, rest) := by
      rw [scanSeg_delim _ _ (by decide)]; rfl
    have hn : nm Pitem [] = [] := rfl
    simp [readNodes, skipWs, isWsC, startsWith, List.isPrefixOf, this, consItem, hn]

theorem reads_item_semi (top : Bool) (H more : Str) (ns : RNodes) (rest : Str) (hH : hdrOk H = true)
    (h : Reads top more ns rest) : Reads top (H ++ ';' :: more) (consItem (nm Pitem H) ns) rest := by
  simp only [hdrOk, Bool.and_eq_true] at hH
  refine ⟨by have := h.1; simp; omega, fun f hf => ?_⟩
  cases f with
  | zero => omega
  | succ f =>
    obtain ⟨e1, e2, e3⟩ := hdr_start H (';' :: more) hH.2
    have sc : scanSeg .normal (H ++ ';' :: more) = (H, .semi, more) := by
      rw [scanSeg_flat _ _ _ hH.1, scanSeg_delim _ _ (by decide)]; simp [delimOf]
    have hr := h.2 f (by simp at hf; omega)
    simp [readNodes, e1, e2, e3, sc, hr]

theorem reads_item_close (H w rest : Str) (hH : hdrOk H = true) (hw : allWs w = true) :
    Reads false (H ++ w ++ '}' :: rest) (consItem (nm Pitem H) .nil) rest := by
  simp only [hdrOk, Bool.and_eq_true] at hH
  refine ⟨by simp; omega, fun f hf => ?_⟩
  cases f with
  | zero => omega
  | succ f =>
    obtain ⟨e1, e2, e3⟩ := hdr_start H (w ++ '}' :: rest) hH.2
    have sc : scanSeg .normal (H ++ (w ++ '}' :: rest)) = (H ++ w, .cls, rest) := by
      rw [scanSeg_flat _ _ _ hH.1, scanSeg_ws _ _ hw, scanSeg_delim _ _ (by decide)]; simp [delimOf]
    simp only [List.append_assoc] at *
    simp [readNodes, e1, e2, e3, sc, nm_trailing_ws Pitem H w hH.1 hw]

theorem reads_block (top : Bool) (H w K M : Str) (kids ns : RNodes) (rest : Str) (hH : hdrOk H = true)
    (hw : allWs w = true) (hk : Reads false K kids M) (hm : Reads top M ns rest) :
    Reads top (H ++ w ++ '{' :: K) (.cons (.block (nm Ppre H) kids) ns) rest := by
  simp only [hdrOk, Bool.and_eq_true] at hH
  refine ⟨by have := hk.1; have := hm.1; simp; omega, fun f hf => ?_⟩
  cases f with
  | zero => omega
  | succ f =>
    obtain ⟨e1, e2, e3⟩ := hdr_start H (w ++ '{' :: K) hH.2
    have sc : scanSeg .normal (H ++ (w ++ '{' :: K)) = (H ++ w, .opn, K) := by
      rw [scanSeg_flat _ _ _ hH.1, scanSeg_ws _ _ hw, scanSeg_delim _ _ (by decide)]; simp [delimOf]
    have h1 := hk.2 f (by simp at hf; omega)
    have h2 := hm.2 f (by have := hk.1; simp at hf; omega)
    simp only [List.append_assoc] at *
    simp [readNodes, e1, e2, e3, sc, h1, h2, nm_trailing_ws Ppre H w hH.1 hw]

theorem reads_comment (top : Bool) (c more : Str) (ns : RNodes) (rest : Str) (hc : commentTok c = true)
    (h : Reads top more ns rest) : Reads top (c ++ more) (consComment c ns) rest := by
  obtain ⟨t1, _, t3, t4, hlen⟩ := takeComment_append c more hc
  refine ⟨by have := h.1; simp; omega, fun f hf => ?_⟩
  cases f with
  | zero => omega
  | succ f =>
    have hr := h.2 f (by simp at hf; omega)
    have ne : (c ++ more).isEmpty = false := by cases c <;> simp_all
    simp [readNodes, t4, ne, t3, t1, hr]

/-! ### the serializer's statements, read back -/

theorem consItem_hdr (H : Str) (ns : RNodes) (h : hdrOk H = true) :
    consItem (nm Pitem H) ns = .cons (.item (nm Pitem H)) ns := by
  simp [consItem, nm_hdr_ne Pitem H h]

theorem canon_invisible (st : Style) (s : Stmt) (h : s.isInvisible = true) : canonStmt st s = none := by
  cases s with
  | rule ge sel body => rw [canonStmt]; simp [h]
  | decl name custom v => simp only [Stmt.isInvisible] at h; rw [canonStmt]; simp [h]
  | media ge qs body => rw [canonStmt]; simp [h]
  | supports ge p body => rw [canonStmt]; simp [h]
  | unknown ge n p hb body => simp [Stmt.isInvisible] at h
  | kf sels body => rw [canonStmt]; simp [h]
  | comment text col => simp [Stmt.isInvisible] at h
  | «import» url mods => simp [Stmt.isInvisible] at h

/-- Statements that end with `;`: their rendering is indentation + one flat header text. -/
theorem item_shape (st : Style) (ind : Nat) (s : Stmt) (hs : s.requiresSemicolon = true)
    (hw : (visitStmt st ind s).1 = true) (hr : s.readable st = true) :
    ∃ H, hdrOk H = true ∧ (visitStmt st ind s).2 = indentOut st ind ++ H ∧ canonStmt st s = some (.item (nm Pitem H)) := by
  have hv := not_invisible_of_written st ind s hw
  cases s with
  | rule ge sel body => simp [Stmt.requiresSemicolon] at hs
  | media ge qs body => simp [Stmt.requiresSemicolon] at hs
  | supports ge p body => simp [Stmt.requiresSemicolon] at hs
  | kf sels body => simp [Stmt.requiresSemicolon] at hs
  | comment text col => simp [Stmt.requiresSemicolon] at hs
  | decl name custom v =>
    simp only [Stmt.isInvisible] at hv
    simp only [Stmt.readable, hv, Bool.false_or] at hr
    refine ⟨declText st name custom v, hr, ?_, ?_⟩
    · rw [visitStmt]; simp [hv, declText, List.append_assoc]
    · rw [canonStmt]; simp [hv]
  | unknown ge n p hb body =>
    simp only [Stmt.requiresSemicolon, Bool.not_eq_true'] at hs
    simp only [Stmt.readable, Bool.and_eq_true] at hr
    refine ⟨unknownPrelude n p, hr.1, ?_, ?_⟩
    · unfold visitStmt; simp [hs, unknownPrelude, List.append_assoc]
    · rw [canonStmt]; simp [hs]
  | «import» url mods =>
    simp only [Stmt.readable] at hr
    refine ⟨importText url mods, hr, ?_, ?_⟩
    · unfold visitStmt; cases mods <;> simp [importText, List.append_assoc]
    · rw [canonStmt]

/-- A block statement printed by `blockOut`. -/
theorem block_reads (st : Style) (ind : Nat) (top : Bool) (H K more : Str) (kids ns : RNodes) (rest : Str)
    (hH : hdrOk H = true)
    (hk : Reads false (K ++ (indentOut st ind ++ '}' :: more)) kids more)
    (hm : Reads top more ns rest) :
    Reads top (indentOut st ind ++ H ++ blockOut st ind K ++ more) (.cons (.block (nm Ppre H) kids) ns) rest := by
  cases st
  · have e : indentOut .expanded ind ++ H ++ blockOut .expanded ind K ++ more =
        indentOut .expanded ind ++ (H ++ [' '] ++ '{' :: (['\n'] ++ (K ++ (indentOut .expanded ind ++ '}' :: more)))) := by
      have : lit " {\n" = [' ', '{', '\n'] := by decide
      simp [blockOut, openBlock, closeBlock, Style.isCompressed, this, List.append_assoc]
    rw [e]
    exact reads_ws _ _ _ _ _ (allWs_indent _ _)
      (reads_block top H [' '] _ more kids ns rest hH (by decide) (reads_ws _ _ _ _ _ (by decide) hk) hm)
  · have e : indentOut .compressed ind ++ H ++ blockOut .compressed ind K ++ more =
        indentOut .compressed ind ++ (H ++ [] ++ '{' :: (K ++ (indentOut .compressed ind ++ '}' :: more))) := by
      simp [blockOut, openBlock, closeBlock, Style.isCompressed, List.append_assoc]
    rw [e]
    exact reads_ws _ _ _ _ _ (allWs_indent _ _) (reads_block top H [] _ more kids ns rest hH (by decide) hk hm)

mutual
theorem stmt_reads (st : Style) : ∀ (s : Stmt) (ind : Nat) (top : Bool) (more : Str) (ns : RNodes) (rest : Str),
    s.readable st = true → (visitStmt st ind s).1 = true → Reads top more ns rest →
    Reads top ((visitStmt st ind s).2 ++ (if s.requiresSemicolon then [';'] else []) ++ more)
      (consOpt (canonStmt st s) ns) rest
  | .rule ge sel body, ind, top, more, ns, rest, hr, hw, hm => by
    have hv := not_invisible_of_written st ind _ hw
    simp only [Stmt.readable, hv, Bool.false_or, Bool.and_eq_true] at hr
    have hk := kids_reads st body (ind + 2) (indentOut st ind) more hr.2 (allWs_indent _ _)
    rw [visitStmt, canonStmt]
    simp only [hv, Bool.false_eq_true, if_false, Stmt.requiresSemicolon, List.append_nil, consOpt]
    exact block_reads st ind top _ _ more _ ns rest hr.1 (by simpa [List.append_assoc] using hk) hm
  | .media ge qs body, ind, top, more, ns, rest, hr, hw, hm => by
    have hv := not_invisible_of_written st ind _ hw
    simp only [Stmt.readable, hv, Bool.false_or, Bool.and_eq_true] at hr
    have hk := kids_reads st body (ind + 2) (indentOut st ind) more hr.2 (allWs_indent _ _)
    rw [visitStmt, canonStmt]
    simp only [hv, Bool.false_eq_true, if_false, Stmt.requiresSemicolon, List.append_nil, consOpt]
    have := block_reads st ind top (mediaPrelude st qs) _ more _ ns rest hr.1 (by simpa [List.append_assoc] using hk) hm
    simpa [mediaPrelude, List.append_assoc] using this
  | .supports ge params body, ind, top, more, ns, rest, hr, hw, hm => by
    have hv := not_invisible_of_written st ind _ hw
    simp only [Stmt.readable, hv, Bool.false_or, Bool.and_eq_true] at hr
    have hk := kids_reads st body (ind + 2) (indentOut st ind) more hr.2 (allWs_indent _ _)
    rw [visitStmt, canonStmt]
    simp only [hv, Bool.false_eq_true, if_false, Stmt.requiresSemicolon, List.append_nil, consOpt]
    have := block_reads st ind top (supportsPrelude params) _ more _ ns rest hr.1 (by simpa [List.append_assoc] using hk) hm
    simpa [supportsPrelude, List.append_assoc] using this
  | .kf sels body, ind, top, more, ns, rest, hr, hw, hm => by
    have hv := not_invisible_of_written st ind _ hw
    simp only [Stmt.readable, hv, Bool.false_or, Bool.and_eq_true] at hr
    have hk := kids_reads st body (ind + 2) (indentOut st ind) more hr.2 (allWs_indent _ _)
    rw [visitStmt, canonStmt]
    simp only [hv, Bool.false_eq_true, if_false, Stmt.requiresSemicolon, List.append_nil, consOpt]
    have := block_reads st ind top (kfPrelude sels) _ more _ ns rest hr.1 (by simpa [List.append_assoc] using hk) hm
    simpa [kfPrelude, List.append_assoc] using this
  | .unknown ge name params hasBody body, ind, top, more, ns, rest, hr, hw, hm => by
    cases hasBody with
    | false =>
      obtain ⟨H, hH, ho, hc⟩ := item_shape st ind _ (by simp [Stmt.requiresSemicolon]) hw hr
      rw [ho, hc]
      simp only [Stmt.requiresSemicolon, Bool.not_false, if_true, consOpt, List.append_assoc, List.singleton_append]
      have := reads_item_semi top H more ns rest hH hm
      rw [consItem_hdr H ns hH] at this
      exact reads_ws _ _ _ _ _ (allWs_indent _ _) this
    | true =>
      simp only [Stmt.readable, Bool.and_eq_true] at hr
      unfold visitStmt
      rw [canonStmt]
      simp only [Bool.not_true, Bool.false_eq_true, if_false, Stmt.requiresSemicolon, List.append_nil, consOpt]
      by_cases ha : body.allInvisible = true
      · simp only [ha, if_true]
        have hb : Reads top (indentOut st ind ++ (unknownPrelude name params ++ [' '] ++ '{' :: ('}' :: more)))
            (.cons (.block (nm Ppre (unknownPrelude name params)) .nil) ns) rest :=
          reads_ws _ _ _ _ _ (allWs_indent _ _)
            (reads_block top _ [' '] _ more .nil ns rest hr.1 (by decide) (reads_close more) hm)
        have e : lit " {}" = [' ', '{', '}'] := by decide
        simpa [unknownPrelude, e, List.append_assoc] using hb
      · simp only [ha, Bool.false_eq_true, if_false]
        have hk := kids_reads st body (ind + 2) (indentOut st ind) more hr.2 (allWs_indent _ _)
        have := block_reads st ind top (unknownPrelude name params) _ more _ ns rest hr.1
          (by simpa [List.append_assoc] using hk) hm
        simpa [unknownPrelude, List.append_assoc] using this
  | .decl name custom v, ind, top, more, ns, rest, hr, hw, hm => by
    obtain ⟨H, hH, ho, hc⟩ := item_shape st ind _ (by simp [Stmt.requiresSemicolon]) hw hr
    rw [ho, hc]
    simp only [Stmt.requiresSemicolon, if_true, consOpt, List.append_assoc, List.singleton_append]
    have := reads_item_semi top H more ns rest hH hm
    rw [consItem_hdr H ns hH] at this
    exact reads_ws _ _ _ _ _ (allWs_indent _ _) this
  | .import url mods, ind, top, more, ns, rest, hr, hw, hm => by
    obtain ⟨H, hH, ho, hc⟩ := item_shape st ind _ (by simp [Stmt.requiresSemicolon]) hw hr
    rw [ho, hc]
    simp only [Stmt.requiresSemicolon, if_true, consOpt, List.append_assoc, List.singleton_append]
    have := reads_item_semi top H more ns rest hH hm
    rw [consItem_hdr H ns hH] at this
    exact reads_ws _ _ _ _ _ (allWs_indent _ _) this
  | .comment text col, ind, top, more, ns, rest, hr, hw, hm => by
    simp only [Stmt.readable, Bool.and_eq_true, beq_iff_eq] at hr
    unfold visitStmt
    rw [canonStmt, consOpt_comment]
    simp only [Stmt.requiresSemicolon, Bool.false_eq_true, if_false, List.append_nil]
    by_cases hk : commentKept st text = true
    · simp only [hk, if_true, List.append_assoc]
      exact reads_ws _ _ _ _ _ (allWs_indent _ _) (reads_comment top _ more ns rest hr.1 hm)
    · -- dropped: compressed and not `/*!`, so the reader would drop it as well
      have hk' : commentKept st text = false := by simpa using hk
      simp only [hk', Bool.false_eq_true, if_false, List.nil_append]
      have : isLoud (commentOut text col) = false := by
        rw [hr.2]
        simp only [commentKept, Bool.not_eq_false', Bool.and_eq_true, Bool.not_eq_true'] at hk'
        exact hk'.2
      simpa [consComment, this] using hm
theorem kids_reads (st : Style) : ∀ (ss : Stmts) (ind : Nat) (w rest : Str),
    ss.readable st = true → allWs w = true →
    Reads false (childrenLoop st ind ss ++ w ++ '}' :: rest) (canonKids st ss) rest
  | .nil, ind, w, rest, _, hw => by
    rw [childrenLoop, canonKids]
    simpa using reads_ws _ _ _ _ _ hw (reads_close rest)
  | .cons s ss, ind, w, rest, hr, hw => by
    simp only [Stmts.readable, Bool.and_eq_true] at hr
    have ih := kids_reads st ss ind w rest hr.2 hw
    rw [childrenLoop_cons, canonKids]
    cases hwr : (visitStmt st ind s).1
    · -- nothing written: invisible
      have hi : s.isInvisible = true := by
        cases hx : s.isInvisible
        · have := visit_visible st ind s hx
          rw [hwr] at this; simp at this
        · rfl
      simp only [Bool.false_eq_true, if_false, List.nil_append, canon_invisible st s hi, consOpt]
      exact ih
    · simp only [↓reduceIte]
      by_cases hsemi : childSemi st ss.isNil s = (if s.requiresSemicolon then [';'] else [])
      · rw [hsemi]
        have := stmt_reads st s ind false (optNl st ++ (childrenLoop st ind ss ++ w ++ '}' :: rest)) _ rest hr.1 hwr
          (reads_ws _ _ _ _ _ (allWs_optNl st) ih)
        simpa [List.append_assoc] using this
      · -- the `;` of the last child is omitted (compressed): the item runs up to the closing brace
        have hreq : s.requiresSemicolon = true := by
          cases hq : s.requiresSemicolon
          · exfalso; apply hsemi; simp [childSemi, hq]
          · rfl
        have hlast : ss.isNil = true ∧ st.isCompressed = true := by
          cases hL : ss.isNil <;> cases hC : st.isCompressed <;>
            first
            | exact ⟨rfl, rfl⟩
            | (exfalso; apply hsemi; simp [childSemi, hreq, hL, hC])
        have hnil : ss = .nil := by
          cases ss with
          | nil => rfl
          | cons a b => simp [Stmts.isNil] at hlast
        subst hnil
        obtain ⟨H, hH, ho, hc⟩ := item_shape st ind s hreq hwr hr.1
        have hst : st = .compressed := by cases st <;> simp_all [Style.isCompressed]
        subst hst
        rw [ho, hc]
        simp only [childSemi, hreq, Stmts.isNil, Style.isCompressed, Bool.and_self, Bool.not_true, Bool.false_eq_true, if_false,
          optNl, if_true, List.append_nil, consOpt]
        rw [childrenLoop, canonKids]
        have := reads_item_close H w rest hH hw
        rw [consItem_hdr H .nil hH] at this
        simpa [List.append_assoc] using reads_ws _ _ _ _ _ (allWs_indent .compressed ind) this
end

/-! ### top level -/

/-- The text `finish` returns (no header), described from the left. `e`: nothing written so far. -/
def topText (st : Style) : Bool → Bool → List Stmt → Str
  | e, _, [] => if !e then optNl st else []
  | e, pg, s :: ss =>
    if s.isInvisible then topText st e pg ss
    else
      (if !e then optNl st ++ (if pg then optNl st else []) else []) ++ (visitStmt st 0 s).2 ++
        (if s.requiresSemicolon then [';'] else []) ++
        topText st (e && (visitStmt st 0 s).2.isEmpty && !s.requiresSemicolon) s.isGroupEnd ss

theorem isEmpty_append' {α} (a b : List α) : (a ++ b).isEmpty = (a.isEmpty && b.isEmpty) := by
  cases a <;> simp


theorem isEmpty_of_ne' {α} {l : List α} (h : ¬ l = []) : l.isEmpty = false := by
  cases l <;> simp_all


theorem finish_topText (st : Style) (t : List Stmt) (T : Top) :
    finish st false (topLoop st T t) =
      T.buf ++ (if T.prevSemi then [';'] else []) ++ topText st (T.buf.isEmpty && !T.prevSemi) T.prevGroupEnd t := by
  induction t generalizing T with
  | nil =>
    obtain ⟨buf, pg, ps⟩ := T
    cases ps <;> cases hb : buf.isEmpty <;> simp_all [topLoop, finish, topText]
  | cons s ss ih =>
    simp only [topLoop, topText]
    by_cases hi : s.isInvisible = true
    · simp only [hi, if_true]; exact ih T
    · have hi' : s.isInvisible = false := by simpa using hi
      simp only [hi', Bool.false_eq_true, if_false]
      rw [ih]
      obtain ⟨buf, pg, ps⟩ := T
      cases ps <;> cases pg <;> cases hb : buf.isEmpty <;> cases ho : (visitStmt st 0 s).2.isEmpty <;>
        cases hq : s.requiresSemicolon <;>
        simp_all [visitGroup, List.append_assoc, isEmpty_append', isEmpty_of_ne']


theorem serialize_topText (st : Style) (t : List Stmt) : serialize st false t = topText st true false t := by
  simp [serialize, finish_topText, Top.init]


theorem finish_header (st : Style) (cs : Bool) (T : Top) :
    finish st cs T = finish st false T ∨ finish st cs T = bom :: finish st false T ∨
      finish st cs T = charsetPrefix ++ finish st false T := by
  unfold finish
  cases cs <;> cases T.buf.any isNonAscii <;> cases st <;> simp [Style.isCompressed]


theorem stripHeader_serialize (st : Style) (cs : Bool) (t : List Stmt)
    (hg : hasCharsetOrBom (serialize st false t) = false) :
    stripHeader (serialize st cs t) = serialize st false t := by
  have hself : stripHeader (serialize st false t) = serialize st false t := by
    simp only [hasCharsetOrBom, Bool.or_eq_false_iff, decide_eq_false_iff_not] at hg
    simp [stripHeader, hg.1, hg.2]
  unfold serialize at *
  rcases finish_header st cs (topLoop st Top.init t) with h | h | h
  · rw [h]; exact hself
  · rw [h]
    have : startsWith (bom :: finish st false (topLoop st Top.init t)) charsetPrefix = false := by
      have hne : ('@' : Char) ≠ bom := by decide
      have hcp : charsetPrefix = '@' :: charsetPrefix.drop 1 := by decide
      rw [hcp]
      simp [startsWith, List.isPrefixOf, hne]
    simp [stripHeader, this]
  · rw [h]
    simp [stripHeader, startsWith, List.prefix_append]


theorem top_reads (st : Style) (t : List Stmt) (e pg : Bool) (h : treeReadable st t = true) :
    Reads true (topText st e pg t) (canonTop st t) [] := by
  induction t generalizing e pg with
  | nil =>
    simp only [topText, canonTop]
    split
    · exact reads_eof _ (allWs_optNl st)
    · exact reads_eof [] rfl
  | cons s ss ih =>
    simp only [treeReadable, List.all_cons, Bool.and_eq_true] at h
    have h2 : treeReadable st ss = true := by simpa [treeReadable] using h.2
    simp only [topText, canonTop]
    by_cases hi : s.isInvisible = true
    · simp only [hi, if_true, canon_invisible st s hi, consOpt]; exact ih e pg h2
    · have hi' : s.isInvisible = false := by simpa using hi
      simp only [hi', Bool.false_eq_true, if_false]
      have hw := visit_visible st 0 s hi'
      have := stmt_reads st s 0 true _ _ [] h.1 hw (ih (e && (visitStmt st 0 s).2.isEmpty && !s.requiresSemicolon) s.isGroupEnd h2)
      have hws : allWs (if !e then optNl st ++ (if pg then optNl st else []) else []) = true := by
        cases e <;> cases pg
        · simpa using allWs_append _ _ (allWs_optNl st) (allWs_nil)
        · simpa using allWs_append _ _ (allWs_optNl st) (allWs_optNl st)
        · rfl
        · rfl
      simpa [List.append_assoc] using reads_ws _ _ _ _ _ hws this

/-! ### header -/

/-- print → read round trip: the reader returns the canonical tree of every readable tree. -/
theorem readTree_serialize (st : Style) (cs : Bool) (t : List Stmt) (h : treeReadable st t = true)
    (hg : hasCharsetOrBom (serialize st false t) = false) :
    readTree (serialize st cs t) = some (canonTop st t) := by
  unfold readTree
  simp only [stripHeader_serialize st cs t hg]
  have := (top_reads st t true false h).2 ((serialize st false t).length + 1) (by rw [serialize_topText]; omega)
  rw [serialize_topText] at *
  simp [this]

/-! ## style independence of the canonical tree -/

/-- `x` is flat and squeezes to `k`. -/
def FS (x k : Str) : Prop := flat x = true ∧ sq x = k

theorem flat_sq_append (m : Mode) (a b : Str) (ha : flatFrom m a = true) :
    flatFrom m (a ++ b) = flatFrom .normal b ∧ sqFrom m (a ++ b) = sqFrom m a ++ sqFrom .normal b := by
  induction a generalizing m with
  | nil =>
    simp only [flatFrom, beq_iff_eq] at ha
    subst ha; simp [sqFrom]
  | cons c cs ih =>
    simp only [flatFrom, Bool.and_eq_true, Bool.not_eq_true'] at ha
    obtain ⟨i1, i2⟩ := ih _ ha.2
    simp only [List.cons_append, flatFrom, sqFrom, ha.1, i1, i2]
    refine ⟨by simp, ?_⟩
    split <;> simp

theorem FS_nil : FS [] [] := ⟨rfl, rfl⟩

theorem FS_append {a b ka kb : Str} (ha : FS a ka) (hb : FS b kb) : FS (a ++ b) (ka ++ kb) := by
  obtain ⟨i1, i2⟩ := flat_sq_append .normal a b ha.1
  exact ⟨by simp [flat, i1]; exact hb.1, by simp [sq, i2]; rw [← ha.2, ← hb.2]; rfl⟩

theorem FS_ws (w : Str) (h : allWs w = true) : FS w [] := ws_flat w h

/-- A character that is ordinary for the scanner: no quote, `/`, `\`, brace, `;`, space or newline. -/
def plainChar (c : Char) : Bool :=
  !(c = '"' || c = '\'' || c = '/' || c = '\\' || structural c || isWsC c)

theorem FS_char (c : Char) (h : plainChar c = true) : FS [c] [c] := by
  simp only [plainChar, Bool.not_eq_true', Bool.or_eq_false_iff, decide_eq_false_iff_not] at h
  obtain ⟨⟨⟨⟨⟨h1, h2⟩, h3⟩, h4⟩, h5⟩, h6⟩ := h
  simp [FS, flat, sq, flatFrom, sqFrom, Mode.isTop, mstep, mstepN, h1, h2, h3, h4, h5, h6]

theorem FS_of (x : Str) (h : flat x = true) : FS x (sq x) := ⟨h, rfl⟩

/-- quoted strings are read as one flat token and are not squeezed -/
theorem str_body (q : Char) (hq : isQuoteChar q) (b : Str) (esc : Bool) (h : quotedBodyOk q esc b = true) :
    flatFrom (if esc then .strEsc q else .str q) (b ++ [q]) = true ∧
    sqFrom (if esc then .strEsc q else .str q) (b ++ [q]) = b ++ [q] := by
  have hqb : q ≠ '\\' := by rcases hq with h | h <;> subst h <;> decide
  induction b generalizing esc with
  | nil =>
    cases esc
    · simp [flatFrom, sqFrom, Mode.isTop, mstep, hqb]
    · simp [quotedBodyOk] at h
  | cons c cs ih =>
    cases esc
    · simp only [quotedBodyOk] at h
      by_cases hc : c = '\\'
      · subst hc
        simp at h
        have := ih true h
        simpa [flatFrom, sqFrom, Mode.isTop, mstep] using this
      · simp only [hc, if_false] at h
        by_cases hc2 : (c = q ∨ isEscapedControl c = true)
        · simp [hc2] at h
        · simp only [not_or] at hc2
          have hh : quotedBodyOk q false cs = true := by simpa [hc2.1, hc2.2] using h
          have := ih false hh
          simpa [flatFrom, sqFrom, Mode.isTop, mstep, hc, hc2.1] using this
    · simp only [quotedBodyOk, Bool.and_eq_true] at h
      have := ih false h.2
      simpa [flatFrom, sqFrom, Mode.isTop, mstep] using this

theorem FS_quote (s : Str) : FS (quote s) (quote s) := by
  have h := quotedOk_quote s
  generalize quote s = tok at *
  cases tok with
  | nil => simp [quotedOk] at h
  | cons q rest =>
    simp only [quotedOk, Bool.and_eq_true, decide_eq_true_eq, Bool.or_eq_true] at h
    obtain ⟨⟨⟨hq, hl⟩, _⟩, hb⟩ := h
    obtain ⟨ys, hys⟩ := List.getLast?_eq_some_iff.mp hl
    subst hys
    rw [List.dropLast_concat] at hb
    have := str_body q hq ys false hb
    rcases hq with e | e <;> subst e <;>
      simpa [FS, flat, sq, flatFrom, sqFrom, Mode.isTop, mstep, mstepN, structural, isWsC] using this

theorem slash_mode (c : Char) (cs : Str) (hc : c ≠ '*') :
    flatFrom .slash (c :: cs) = flatFrom .normal (c :: cs) ∧ sqFrom .slash (c :: cs) = sqFrom .normal (c :: cs) := by
  simp [flatFrom, sqFrom, Mode.isTop, mstep, hc]

theorem flat_slash_cons (x : Str) : flatFrom .normal ('/' :: x) = flatFrom .slash x := by
  simp [flatFrom, Mode.isTop, structural, mstep, mstepN]
theorem sq_slash_cons (x : Str) : sqFrom .normal ('/' :: x) = '/' :: sqFrom .slash x := by
  simp [sqFrom, Mode.isTop, isWsC, mstep, mstepN]
theorem flat_sp_normal (x : Str) : flatFrom .normal (' ' :: x) = flatFrom .normal x := by
  simp [flatFrom, Mode.isTop, structural, mstep, mstepN]
theorem flat_sp_slash (x : Str) : flatFrom .slash (' ' :: x) = flatFrom .normal x := by
  simp [flatFrom, Mode.isTop, structural, mstep, mstepN]
theorem sq_sp_normal (x : Str) : sqFrom .normal (' ' :: x) = sqFrom .normal x := by
  simp [sqFrom, Mode.isTop, isWsC, mstep, mstepN]
theorem sq_sp_slash (x : Str) : sqFrom .slash (' ' :: x) = sqFrom .normal x := by
  simp [sqFrom, Mode.isTop, isWsC, mstep, mstepN]

theorem FS_slash {a b ka kb : Str} (ha : FS a ka) (hb : FS b kb) (hne : ∃ c cs, b = c :: cs ∧ c ≠ '*') :
    FS (a ++ '/' :: b) (ka ++ '/' :: kb) ∧ FS (a ++ (' ' :: '/' :: ' ' :: b)) (ka ++ '/' :: kb) := by
  obtain ⟨c, cs, hb', hc⟩ := hne
  subst hb'
  obtain ⟨s1, s2⟩ := slash_mode c cs hc
  have e1 : FS ('/' :: c :: cs) ('/' :: kb) := by
    refine ⟨?_, ?_⟩
    · simp only [flat]; rw [flat_slash_cons, s1]; exact hb.1
    · simp only [sq]; rw [sq_slash_cons, s2]; exact congrArg _ hb.2
  have e2 : FS (' ' :: '/' :: ' ' :: c :: cs) ('/' :: kb) := by
    refine ⟨?_, ?_⟩
    · simp only [flat]; rw [flat_sp_normal, flat_slash_cons, flat_sp_slash]; exact hb.1
    · simp only [sq]; rw [sq_sp_normal, sq_slash_cons, sq_sp_slash]; exact congrArg _ hb.2
  exact ⟨FS_append ha e1, FS_append ha e2⟩

/-! selectors -/

def complexK (cs : List Component) : Str := (cs.map (fun c => sq c.out)).flatten

theorem FS_complexOut (st : Style) (last : Option Component) (cs : List Component)
    (h : cs.all (fun c => flat c.out) = true) : FS (complexOut st last cs) (complexK cs) := by
  induction cs generalizing last with
  | nil => exact FS_nil
  | cons c r ih =>
    simp only [List.all_cons, Bool.and_eq_true] at h
    simp only [complexOut, complexK, List.map_cons, List.flatten_cons]
    have hsp : FS (match last with
        | some l => if (!omitSpaces st l && !omitSpaces st c) = true then [' '] else []
        | none => []) [] := by
      cases last with
      | none => exact FS_nil
      | some l =>
        show FS (if (!omitSpaces st l && !omitSpaces st c) = true then [' '] else []) []
        split
        · exact FS_ws [' '] (by decide)
        · exact FS_nil
    exact FS_append (FS_append hsp (FS_of _ h.1)) (ih (some c) h.2)

def selLoopK : Bool → List Complex → Str
  | _, [] => []
  | first, cx :: cs => (if first then [] else [',']) ++ complexK cx.comps ++ selLoopK false cs

theorem FS_selectorLoop (st : Style) (first : Bool) (l : List Complex)
    (h : l.all (fun cx => cx.comps.all (fun c => flat c.out)) = true) :
    FS (selectorLoop st first l) (selLoopK first l) := by
  induction l generalizing first with
  | nil => exact FS_nil
  | cons cx r ih =>
    simp only [List.all_cons, Bool.and_eq_true] at h
    simp only [selectorLoop, selLoopK]
    have hsep : FS (if first = true then [] else ',' :: (if cx.lineBreak = true then optNl st else optSp st))
        (if first = true then [] else [',']) := by
      split
      · exact FS_nil
      · have hw : allWs (if cx.lineBreak = true then optNl st else optSp st) = true := by
          cases st <;> split <;> decide
        have := FS_append (FS_char ',' (by decide)) (FS_ws _ hw)
        simpa using this
    exact FS_append (FS_append hsep (FS_complexOut st none cx.comps h.1)) (ih false h.2)

theorem compOk_flat' (c : Component) (h : compOk c = true) : flat c.out = true := by
  cases c with
  | comb ch =>
    have : (ch = '>' ∨ ch = '+') ∨ ch = '~' := by simpa [compOk, combOk] using h
    rcases this with (e | e) | e <;> subst e <;> decide
  | compound ss => exact h

theorem sel_indep (sel : Selector) (h : selG sel = true) (st : Style) :
    hdrOk (rulePrelude st sel) = true ∧ sq (rulePrelude st sel) = selLoopK true (sel.filter (fun c => !c.isInvisible)) := by
  simp only [selG, Bool.and_eq_true] at h
  have hflat : (sel.filter (fun c => !c.isInvisible)).all (fun cx => cx.comps.all (fun c => flat c.out)) = true := by
    have := h.1.1
    simp only [List.all_eq_true] at *
    exact fun cx hcx c hc => compOk_flat' c (this cx hcx c hc)
  have := FS_selectorLoop st true _ hflat
  refine ⟨?_, this.2⟩
  simp only [hdrOk, Bool.and_eq_true, rulePrelude]
  exact ⟨this.1, by cases st; exact h.1.2; exact h.2⟩

/-! values -/

theorem quote_head (s : Str) : ∃ q r, quote s = q :: r ∧ q ≠ '*' := by
  unfold quote
  cases quoteFlags false false s with
  | none => exact ⟨'"', _, rfl, by decide⟩
  | some hd => cases hd <;> exact ⟨_, _, rfl, by decide⟩

theorem atom_props (a : Atom) (h : a.g = true) :
    FS a.out (sq a.out) ∧ ∃ c cs, a.out = c :: cs ∧ c ≠ '*' := by
  cases a with
  | raw s =>
    simp only [Atom.g, Bool.and_eq_true] at h
    refine ⟨FS_of _ h.1, ?_⟩
    simp only [Atom.out]
    cases hx : unquotedOut s with
    | nil => rw [hx] at h; simp [headNotStar] at h
    | cons c cs => rw [hx] at h; exact ⟨c, cs, rfl, by simpa [headNotStar] using h.2⟩
  | quoted s =>
    refine ⟨FS_of _ (FS_quote s).1, ?_⟩
    obtain ⟨q, r, e, hq⟩ := quote_head s
    exact ⟨q, r, e, hq⟩

def sepK : Sep → Str
  | .space => []
  | .comma => [',']
  | .slash => ['/']

def listK (sep : Sep) : List Atom → Str
  | [] => []
  | [a] => sq a.out
  | a :: b :: r => sq a.out ++ sepK sep ++ listK sep (b :: r)

theorem FS_listLoop (st : Style) (sep : Sep) (l : List Atom) (h : l.all Atom.g = true) :
    FS (listLoop st sep l) (listK sep l) ∧ (l ≠ [] → ∃ c cs, listLoop st sep l = c :: cs ∧ c ≠ '*') := by
  induction l with
  | nil => exact ⟨FS_nil, fun h => absurd rfl h⟩
  | cons a r ih =>
    simp only [List.all_cons, Bool.and_eq_true] at h
    obtain ⟨fa, c, cs, ea, hc⟩ := atom_props a h.1
    cases r with
    | nil => exact ⟨by simpa [listLoop, listK] using fa, fun _ => ⟨c, cs, by simpa [listLoop] using ea, hc⟩⟩
    | cons b r' =>
      obtain ⟨fr, hr⟩ := ih h.2
      obtain ⟨c', cs', er, hc'⟩ := hr (by simp)
      refine ⟨?_, fun _ => ⟨c, cs ++ (sepOut st sep ++ listLoop st sep (b :: r')), by simp [listLoop, ea], hc⟩⟩
      simp only [listLoop, listK]
      cases sep with
      | space =>
        have := FS_append (FS_append fa (FS_ws [' '] (by decide))) fr
        simpa [sepOut, sepK] using this
      | comma =>
        have hs : FS (sepOut st .comma) [','] := by
          cases st
          · have := FS_append (FS_char ',' (by decide)) (FS_ws [' '] (by decide))
            simpa [sepOut, Style.isCompressed, lit] using this
          · simpa [sepOut, Style.isCompressed] using FS_char ',' (by decide)
        have := FS_append (FS_append fa hs) fr
        simpa [sepK] using this
      | slash =>
        obtain ⟨s1, s2⟩ := FS_slash fa fr ⟨c', cs', er, hc'⟩
        cases st
        · have e : lit " / " = [' ', '/', ' '] := by decide
          simpa [sepOut, Style.isCompressed, sepK, e, List.append_assoc] using s2
        · simpa [sepOut, Style.isCompressed, sepK, List.append_assoc] using s1

def valueK : Value → Str
  | .atom a => sq a.out
  | .list sep items => listK sep (items.filter (fun a => !a.isBlank))

theorem FS_value (st : Style) (v : Value) (h : v.g = true) (hb : v.isBlank = false) : FS (v.out st) (valueK v) := by
  cases v with
  | atom a =>
    simp only [Value.g, Value.isBlank] at h hb
    simp only [hb, Bool.false_or] at h
    exact (atom_props a h).1
  | list sep items =>
    simp only [Value.g] at h
    have hf : (items.filter (fun a => !a.isBlank)).all Atom.g = true := by
      simp only [List.all_eq_true, List.mem_filter, Bool.or_eq_true, Bool.not_eq_true', and_imp] at *
      intro a ha hnb
      rcases h a ha with e | e
      · rw [hnb] at e; simp at e
      · exact e
    exact (FS_listLoop st sep _ hf).1

theorem decl_indep (name : Str) (custom : Bool) (v : Value) (hn : flat name = true) (hh : headOk name = true)
    (hv : v.g = true) (hb : v.isBlank = false) (st : Style) :
    hdrOk (declText st name custom v) = true ∧ sq (declText st name custom v) = sq name ++ ':' :: valueK v := by
  have hsp : FS (if (!custom && !st.isCompressed) = true then [' '] else []) [] := by
    split; exact FS_ws [' '] (by decide); exact FS_nil
  have := FS_append (FS_append (FS_append (FS_of _ hn) (FS_char ':' (by decide))) hsp) (FS_value st v hv hb)
  have hk : sq name ++ [':'] ++ [] ++ valueK v = sq name ++ ':' :: valueK v := by simp
  rw [hk] at this
  refine ⟨?_, this.2⟩
  simp only [hdrOk, declText]
  rw [Bool.and_eq_true]
  refine ⟨this.1, ?_⟩
  cases name with
  | nil => simp [headOk] at hh
  | cons c cs => simpa [headOk] using hh

/-! media queries -/

def joinK : List Str → Str
  | [] => []
  | [x] => sq x
  | x :: y :: r => sq x ++ ',' :: joinK (y :: r)

theorem FS_joinQueries (st : Style) (l : List Str) (h : l.all flat = true) :
    FS (joinWith (',' :: optSp st) l) (joinK l) := by
  induction l with
  | nil => exact FS_nil
  | cons x r ih =>
    simp only [List.all_cons, Bool.and_eq_true] at h
    cases r with
    | nil => simpa [joinWith, joinK] using FS_of _ h.1
    | cons y r' =>
      have hsep : FS (',' :: optSp st) [','] := by
        have := FS_append (FS_char ',' (by decide)) (FS_ws (optSp st) (by cases st <;> decide))
        simpa using this
      have := FS_append (FS_append (FS_of _ h.1) hsep) (ih h.2)
      simpa [joinWith, joinK, List.append_assoc] using this

theorem media_indep (qs : List Query) (h : (qs.map queryOut).all flat = true) (st : Style) :
    hdrOk (mediaPrelude st qs) = true ∧ sq (mediaPrelude st qs) = lit "@media" ++ joinK (qs.map queryOut) := by
  have h0 : FS (lit "@media ") (lit "@media") := ⟨by decide, by decide⟩
  have := FS_append h0 (FS_joinQueries st _ h)
  simp only [mediaPrelude, hdrOk, Bool.and_eq_true]
  refine ⟨⟨this.1, ?_⟩, this.2⟩
  have e : lit "@media " = '@' :: (lit "@media ").drop 1 := by decide
  rw [e]; simp [headOk, isWsC]

/-! ### equal runs -/

def EqRun (P : Char → Bool) (a b : Str) : Prop := ∀ s : NS, s.mode = .normal → nrun P s a = nrun P s b
def EndsN (a : Str) : Prop := mrun .normal a = .normal

instance (a : Str) : Decidable (EndsN a) := by unfold EndsN; infer_instance

theorem mrun_append (m : Mode) (a b : Str) : mrun m (a ++ b) = mrun (mrun m a) b := by
  induction a generalizing m with
  | nil => rfl
  | cons c cs ih => simp [mrun, ih]

theorem EndsN_append {a b : Str} (ha : EndsN a) (hb : EndsN b) : EndsN (a ++ b) := by
  simp only [EndsN, mrun_append] at *; rw [ha, hb]

theorem EndsN_nil : EndsN [] := rfl
theorem EndsN_flat {x : Str} (h : flat x = true) : EndsN x := flat_mrun _ _ h
theorem EndsN_ws {w : Str} (h : allWs w = true) : EndsN w := EndsN_flat (ws_flat w h).1

theorem EqRun_refl (P : Char → Bool) (a : Str) : EqRun P a a := fun _ _ => rfl

theorem EqRun_append {P : Char → Bool} {a a' b b' : Str} (h1 : EqRun P a a') (ha : EndsN a) (h2 : EqRun P b b') :
    EqRun P (a ++ b) (a' ++ b') := by
  intro s hs
  rw [nrun_append, nrun_append, h1 s hs]
  have hm : (nrun P s a').2.mode = .normal := by
    rw [← h1 s hs, nrun_mode, hs]; exact ha
  rw [h2 _ hm]

/-- optional whitespace after a punctuation character -/
theorem EqRun_after (P : Char → Bool) (p : Char) (w : Str) (hP : P p = true) (hnw : isWsC p = false)
    (hm : mstep .normal p = .normal) (hw : allWs w = true) : EqRun P (p :: w) [p] := by
  intro s hs
  obtain ⟨m, k, pd⟩ := s
  simp only at hs; subst hs
  have e : p :: w = [p] ++ w := rfl
  rw [e, nrun_append, nrun_punct P k pd p hP hnw, hm]
  have := nrun_ws_idle P ⟨.normal, .punct, false⟩ w hw rfl (by simp) rfl
  simp [this]

/-- optional whitespace before a punctuation character -/
theorem EqRun_before (P : Char → Bool) (p : Char) (w : Str) (hP : P p = true) (hnw : isWsC p = false)
    (hw : allWs w = true) : EqRun P (w ++ [p]) [p] := by
  intro s hs
  obtain ⟨m, k, pd⟩ := s
  simp only at hs; subst hs
  obtain ⟨p', hp'⟩ := nrun_ws P ⟨.normal, k, pd⟩ w hw rfl
  rw [nrun_append, hp', nrun_punct P k p' p hP hnw, nrun_punct P k pd p hP hnw]
  simp

theorem nrun_slash_start (P : Char → Bool) (k : Kind) (pd : Bool) (c : Char) (cs : Str) (hc : c ≠ '*') :
    nrun P ⟨.slash, k, pd⟩ (c :: cs) = nrun P ⟨.normal, k, pd⟩ (c :: cs) := by
  simp [nrun, nstep, Mode.isTop, mstep, hc]

/-! ### selectors -/


theorem comb_facts (c : Char) (h : combOk c = true) :
    Ppre c = true ∧ isWsC c = false ∧ mstep .normal c = .normal := by
  have : (c = '>' ∨ c = '+') ∨ c = '~' := by simpa [combOk] using h
  rcases this with (e | e) | e <;> subst e <;> decide

def spOf (st : Style) (last : Option Component) (c : Component) : Str :=
  match last with
  | some l => if !omitSpaces st l && !omitSpaces st c then [' '] else []
  | none => []

theorem complexOut_cons (st : Style) (last : Option Component) (c : Component) (r : List Component) :
    complexOut st last (c :: r) = (spOf st last c ++ c.out) ++ complexOut st (some c) r := by
  cases last <;> simp [complexOut, spOf]

theorem spOf_none (st : Style) (c : Component) : spOf st none c = [] := rfl
theorem spOf_exp (l c : Component) : spOf .expanded (some l) c = [' '] := by
  simp [spOf, omitSpaces, Style.isCompressed]
theorem spOf_comp (l c : Component) : spOf .compressed (some l) c = if l.isComb || c.isComb then [] else [' '] := by
  cases hl : l.isComb <;> cases hc : c.isComb <;> simp [spOf, omitSpaces, Style.isCompressed, hl, hc]

theorem piece_eq (last : Option Component) (c : Component) (hc : compOk c = true) (k : Kind) (pd : Bool)
    (hl : ∀ l, last = some l → l.isComb = true → k = .punct ∧ pd = false) :
    nrun Ppre ⟨.normal, k, pd⟩ (spOf .expanded last c ++ c.out) =
      nrun Ppre ⟨.normal, k, pd⟩ (spOf .compressed last c ++ c.out) ∧
    (nrun Ppre ⟨.normal, k, pd⟩ (spOf .expanded last c ++ c.out)).2.mode = .normal ∧
    (c.isComb = true → (nrun Ppre ⟨.normal, k, pd⟩ (spOf .expanded last c ++ c.out)).2.k = .punct ∧
      (nrun Ppre ⟨.normal, k, pd⟩ (spOf .expanded last c ++ c.out)).2.pend = false) := by
  cases c with
  | comb ch =>
    obtain ⟨f1, f2, f3⟩ := comb_facts ch hc
    have hp := nrun_punct Ppre k pd ch f1 f2
    cases last with
    | none => simp [spOf_none, Component.out, hp, f3]
    | some l =>
      have e := EqRun_before Ppre ch [' '] f1 f2 (by decide) ⟨.normal, k, pd⟩ rfl
      simp only [spOf_exp, spOf_comp, Component.isComb, Bool.or_true, if_true, List.nil_append, Component.out]
      rw [e]
      simp [hp, f3]
  | compound ss =>
    have hf : flat (compoundOut ss) = true := hc
    have hic : (Component.compound ss).isComb = false := rfl
    have hout : (Component.compound ss).out = compoundOut ss := rfl
    cases last with
    | none =>
      rw [spOf_none, spOf_none, hic, hout]
      refine ⟨rfl, ?_, by simp⟩
      rw [nrun_mode]; exact EndsN_flat hf
    | some l =>
      cases hlc : l.isComb
      · rw [spOf_exp, spOf_comp, hlc, hic, hout]
        refine ⟨by simp, ?_, by simp⟩
        rw [nrun_mode]
        exact EndsN_append (EndsN_ws (w := [' ']) (by decide)) (EndsN_flat hf)
      · obtain ⟨hk, hp⟩ := hl l rfl hlc
        subst hk; subst hp
        rw [spOf_exp, spOf_comp, hlc, hic, hout]
        have e : nrun Ppre ⟨.normal, .punct, false⟩ ([' '] ++ compoundOut ss) =
            nrun Ppre ⟨.normal, .punct, false⟩ ([] ++ compoundOut ss) := by
          rw [nrun_append, nrun_ws_idle Ppre _ [' '] (by decide) rfl (by simp) rfl]
          simp
        refine ⟨by simpa using e, ?_, by simp⟩
        rw [e, nrun_mode]; exact EndsN_flat hf

theorem complex_eq (cs : List Component) (h : cs.all compOk = true) :
    ∀ (last : Option Component) (k : Kind) (pd : Bool),
      (∀ l, last = some l → l.isComb = true → k = .punct ∧ pd = false) →
      nrun Ppre ⟨.normal, k, pd⟩ (complexOut .expanded last cs) = nrun Ppre ⟨.normal, k, pd⟩ (complexOut .compressed last cs) ∧
      (nrun Ppre ⟨.normal, k, pd⟩ (complexOut .expanded last cs)).2.mode = .normal := by
  induction cs with
  | nil => intro last k pd _; simp [complexOut, nrun]
  | cons c r ih =>
    intro last k pd hl
    simp only [List.all_cons, Bool.and_eq_true] at h
    obtain ⟨e1, hm1, hk1⟩ := piece_eq last c h.1 k pd hl
    rw [complexOut_cons, complexOut_cons, nrun_append, nrun_append (a := spOf .compressed last c ++ c.out), ← e1]
    generalize hs1 : (nrun Ppre ⟨.normal, k, pd⟩ (spOf .expanded last c ++ c.out)) = R at *
    obtain ⟨o, ⟨m1, k1, p1⟩⟩ := R
    simp only at hm1 hk1
    subst hm1
    have ihr := ih h.2 (some c) k1 p1 (by intro l hl' hc; cases hl'; exact hk1 hc)
    exact ⟨by simp [ihr.1], by simpa using ihr.2⟩

theorem EqRun_complex (cs : List Component) (h : cs.all compOk = true) :
    EqRun Ppre (complexOut .expanded none cs) (complexOut .compressed none cs) ∧ EndsN (complexOut .expanded none cs) := by
  refine ⟨?_, ?_⟩
  · intro s hs
    obtain ⟨m, k, pd⟩ := s
    simp only at hs; subst hs
    exact (complex_eq cs h none k pd (by intro l hl; cases hl)).1
  · have := (complex_eq cs h none .start false (by intro l hl; cases hl)).2
    rwa [nrun_mode] at this

theorem EqRun_selectorLoop (first : Bool) (l : List Complex) (h : l.all (fun cx => cx.comps.all compOk) = true) :
    EqRun Ppre (selectorLoop .expanded first l) (selectorLoop .compressed first l) ∧ EndsN (selectorLoop .expanded first l) := by
  induction l generalizing first with
  | nil => exact ⟨EqRun_refl _ _, EndsN_nil⟩
  | cons cx r ih =>
    simp only [List.all_cons, Bool.and_eq_true] at h
    simp only [selectorLoop]
    have hsep : EqRun Ppre (if first = true then [] else ',' :: (if cx.lineBreak = true then optNl .expanded else optSp .expanded))
        (if first = true then [] else ',' :: (if cx.lineBreak = true then optNl .compressed else optSp .compressed)) ∧
        EndsN (if first = true then [] else ',' :: (if cx.lineBreak = true then optNl .expanded else optSp .expanded)) := by
      cases first
      · have hw : allWs (if cx.lineBreak = true then optNl .expanded else optSp .expanded) = true := by split <;> decide
        have hc : (if cx.lineBreak = true then optNl .compressed else optSp .compressed) = [] := by split <;> rfl
        simp only [Bool.false_eq_true, if_false, hc]
        exact ⟨EqRun_after Ppre ',' _ (by decide) (by decide) (by decide) hw,
          EndsN_append (a := [',']) (by decide) (EndsN_ws hw)⟩
      · exact ⟨EqRun_refl _ _, EndsN_nil⟩
    obtain ⟨c1, c2⟩ := EqRun_complex cx.comps h.1
    obtain ⟨r1, r2⟩ := ih false h.2
    exact ⟨EqRun_append (EqRun_append hsep.1 hsep.2 c1) (EndsN_append hsep.2 c2) r1,
      EndsN_append (EndsN_append hsep.2 c2) r2⟩

/-! ### values -/

theorem EqRun_slash (a b : Str) (ha : EndsN a) (hb : ∃ c cs, b = c :: cs ∧ c ≠ '*') :
    EqRun Pitem (a ++ (' ' :: '/' :: ' ' :: b)) (a ++ '/' :: b) := by
  refine EqRun_append (EqRun_refl _ a) ha ?_
  obtain ⟨c, cs, e, hc⟩ := hb
  subst e
  intro s hs
  obtain ⟨m, k, pd⟩ := s
  simp only at hs; subst hs
  have h1 : nrun Pitem ⟨.normal, k, pd⟩ (' ' :: '/' :: ' ' :: c :: cs) =
      ('/' :: (nrun Pitem ⟨.normal, .punct, false⟩ (c :: cs)).1, (nrun Pitem ⟨.normal, .punct, false⟩ (c :: cs)).2) := by
    have e : (' ' :: '/' :: ' ' :: c :: cs) = [' '] ++ (['/'] ++ ([' '] ++ (c :: cs))) := rfl
    obtain ⟨p', hp'⟩ := nrun_ws Pitem ⟨.normal, k, pd⟩ [' '] (by decide) rfl
    rw [e, nrun_append, hp', nrun_append, nrun_punct Pitem k p' '/' (by decide) (by decide), nrun_append]
    have : nrun Pitem ⟨mstep .normal '/', .punct, false⟩ [' '] = ([], ⟨.normal, .punct, false⟩) := by
      simp [nrun, nstep, Mode.isTop, mstep, mstepN, isWsC]
    rw [this]; simp
  have h2 : nrun Pitem ⟨.normal, k, pd⟩ ('/' :: c :: cs) =
      ('/' :: (nrun Pitem ⟨.normal, .punct, false⟩ (c :: cs)).1, (nrun Pitem ⟨.normal, .punct, false⟩ (c :: cs)).2) := by
    have e : ('/' :: c :: cs) = ['/'] ++ (c :: cs) := rfl
    rw [e, nrun_append, nrun_punct Pitem k pd '/' (by decide) (by decide)]
    have : mstep .normal '/' = .slash := by decide
    rw [this, nrun_slash_start Pitem .punct false c cs hc]; simp
  rw [h1, h2]

theorem EqRun_listLoop (sep : Sep) (l : List Atom) (h : l.all Atom.g = true) :
    EqRun Pitem (listLoop .expanded sep l) (listLoop .compressed sep l) ∧ EndsN (listLoop .expanded sep l) ∧
      (l ≠ [] → ∃ c cs, listLoop .compressed sep l = c :: cs ∧ c ≠ '*') := by
  induction l with
  | nil => exact ⟨EqRun_refl _ _, EndsN_nil, fun h => absurd rfl h⟩
  | cons a r ih =>
    simp only [List.all_cons, Bool.and_eq_true] at h
    obtain ⟨fa, c, cs, ea, hc⟩ := atom_props a h.1
    have ha : EndsN a.out := EndsN_flat fa.1
    cases r with
    | nil => exact ⟨by simpa [listLoop] using EqRun_refl Pitem a.out, by simpa [listLoop] using ha,
        fun _ => ⟨c, cs, by simpa [listLoop] using ea, hc⟩⟩
    | cons b r' =>
      obtain ⟨e1, e2, e3⟩ := ih h.2
      obtain ⟨c', cs', er, hc'⟩ := e3 (by simp)
      have hhead : ∃ x xs, listLoop .compressed sep (a :: b :: r') = x :: xs ∧ x ≠ '*' :=
        ⟨c, cs ++ (sepOut .compressed sep ++ listLoop .compressed sep (b :: r')), by simp [listLoop, ea], hc⟩
      simp only [listLoop]
      cases sep with
      | space =>
        refine ⟨?_, ?_, fun _ => by simpa [listLoop] using hhead⟩
        · exact EqRun_append (EqRun_refl _ _) (EndsN_append ha (EndsN_ws (w := [' ']) (by decide))) e1
        · exact EndsN_append (EndsN_append ha (EndsN_ws (w := [' ']) (by decide))) e2
      | comma =>
        have hs : EqRun Pitem (sepOut .expanded .comma) (sepOut .compressed .comma) :=
          EqRun_after Pitem ',' [' '] (by decide) (by decide) (by decide) (by decide)
        have hse : EndsN (sepOut .expanded .comma) := by decide
        refine ⟨?_, ?_, fun _ => by simpa [listLoop] using hhead⟩
        · exact EqRun_append (EqRun_append (EqRun_refl _ _) ha hs) (EndsN_append ha hse) e1
        · exact EndsN_append (EndsN_append ha hse) e2
      | slash =>
        refine ⟨?_, ?_, fun _ => by simpa [listLoop] using hhead⟩
        · -- a ++ " / " ++ rest_E   vs   a ++ "/" ++ rest_C
          intro s hs
          have hE : a.out ++ sepOut .expanded .slash ++ listLoop .expanded .slash (b :: r') =
              a.out ++ (' ' :: '/' :: ' ' :: listLoop .expanded .slash (b :: r')) := by
            have : lit " / " = [' ', '/', ' '] := by decide
            simp [sepOut, Style.isCompressed, this]
          have hC : a.out ++ sepOut .compressed .slash ++ listLoop .compressed .slash (b :: r') =
              a.out ++ ('/' :: listLoop .compressed .slash (b :: r')) := by
            simp [sepOut, Style.isCompressed]
          rw [hE, hC]
          -- first replace the expanded tail by the compressed tail, then the separator
          have step1 : EqRun Pitem (a.out ++ (' ' :: '/' :: ' ' :: listLoop .expanded .slash (b :: r')))
              (a.out ++ (' ' :: '/' :: ' ' :: listLoop .compressed .slash (b :: r'))) := by
            have t : ∀ x : Str, a.out ++ (' ' :: '/' :: ' ' :: x) = (a.out ++ [' ', '/', ' ']) ++ x := by intro x; simp
            rw [t (listLoop .expanded .slash (b :: r')), t (listLoop .compressed .slash (b :: r'))]
            exact EqRun_append (EqRun_refl _ _) (EndsN_append ha (by decide)) e1
          rw [step1 s hs]
          exact EqRun_slash a.out _ ha ⟨c', cs', er, hc'⟩ s hs
        · have : EndsN (sepOut .expanded .slash) := by decide
          exact EndsN_append (EndsN_append ha this) e2


/-! ### style independence with the finer canonical text -/

theorem nm_of_EqRun {P : Char → Bool} {a b : Str} (h : EqRun P a b) : nm P a = nm P b := by
  simp only [nm, h NS.init rfl]

theorem compOk_flat0 (c : Component) (h : compOk c = true) : flat c.out = true := by
  cases c with
  | comb ch =>
    have : (ch = '>' ∨ ch = '+') ∨ ch = '~' := by simpa [compOk, combOk] using h
    rcases this with (e | e) | e <;> subst e <;> decide
  | compound ss => exact h

theorem sel_nm (sel : Selector) (h : selG sel = true) :
    nm Ppre (rulePrelude .compressed sel) = nm Ppre (rulePrelude .expanded sel) := by
  simp only [selG, Bool.and_eq_true] at h
  exact (nm_of_EqRun (EqRun_selectorLoop true _ h.1.1).1).symm

theorem EqRun_value (v : Value) (h : v.g = true) (hb : v.isBlank = false) :
    EqRun Pitem (v.out .expanded) (v.out .compressed) := by
  cases v with
  | atom a => exact EqRun_refl _ _
  | list sep items =>
    simp only [Value.g] at h
    have hf : (items.filter (fun a => !a.isBlank)).all Atom.g = true := by
      simp only [List.all_eq_true, List.mem_filter, Bool.or_eq_true, Bool.not_eq_true', and_imp] at *
      intro a ha hnb
      rcases h a ha with e | e
      · rw [hnb] at e; simp at e
      · exact e
    exact (EqRun_listLoop sep _ hf).1

theorem decl_nm (name : Str) (custom : Bool) (v : Value) (hn : flat name = true) (hv : v.g = true) (hb : v.isBlank = false) :
    nm Pitem (declText .compressed name custom v) = nm Pitem (declText .expanded name custom v) := by
  refine (nm_of_EqRun ?_).symm
  simp only [declText]
  have hsp : EqRun Pitem ([':'] ++ (if (!custom && !Style.isCompressed .expanded) = true then [' '] else []))
      ([':'] ++ (if (!custom && !Style.isCompressed .compressed) = true then [' '] else [])) := by
    cases custom
    · exact EqRun_after Pitem ':' [' '] (by decide) (by decide) (by decide) (by decide)
    · exact EqRun_refl _ _
  have hse : EndsN ([':'] ++ (if (!custom && !Style.isCompressed .expanded) = true then [' '] else [])) := by
    cases custom <;> decide
  have := EqRun_append (EqRun_append (EqRun_refl Pitem name) (EndsN_flat hn) hsp) (EndsN_append (EndsN_flat hn) hse)
    (EqRun_value v hv hb)
  simpa [List.append_assoc] using this

theorem EqRun_joinQueries (l : List Str) (h : l.all flat = true) :
    EqRun Ppre (joinWith (',' :: optSp .expanded) l) (joinWith (',' :: optSp .compressed) l) ∧
      EndsN (joinWith (',' :: optSp .expanded) l) := by
  induction l with
  | nil => exact ⟨EqRun_refl _ _, EndsN_nil⟩
  | cons x r ih =>
    simp only [List.all_cons, Bool.and_eq_true] at h
    cases r with
    | nil => exact ⟨by simpa [joinWith] using EqRun_refl Ppre x, by simpa [joinWith] using EndsN_flat h.1⟩
    | cons y r' =>
      obtain ⟨i1, i2⟩ := ih h.2
      have hsep : EqRun Ppre (',' :: optSp .expanded) (',' :: optSp .compressed) :=
        EqRun_after Ppre ',' [' '] (by decide) (by decide) (by decide) (by decide)
      have hse : EndsN (',' :: optSp .expanded) := by decide
      simp only [joinWith]
      exact ⟨EqRun_append (EqRun_append (EqRun_refl _ _) (EndsN_flat h.1) hsep) (EndsN_append (EndsN_flat h.1) hse) i1,
        EndsN_append (EndsN_append (EndsN_flat h.1) hse) i2⟩

theorem media_nm (qs : List Query) (h : (qs.map queryOut).all flat = true) :
    nm Ppre (mediaPrelude .compressed qs) = nm Ppre (mediaPrelude .expanded qs) := by
  refine (nm_of_EqRun ?_).symm
  simp only [mediaPrelude]
  exact EqRun_append (EqRun_refl _ _) (by decide) (EqRun_joinQueries _ h).1


mutual
theorem g_readable (st : Style) : ∀ (s : Stmt), s.g = true → s.readable st = true
  | .rule ge sel body, h => by
    cases hv : (Stmt.rule ge sel body).isInvisible
    · simp only [Stmt.g, hv, Bool.false_or, Bool.and_eq_true] at h
      simp only [Stmt.readable, hv, Bool.false_or, Bool.and_eq_true]
      exact ⟨(sel_indep sel h.1 st).1, gs_readable st body h.2⟩
    · simp [Stmt.readable, hv]
  | .decl name custom v, h => by
    simp only [Stmt.g, Bool.or_eq_true, Bool.and_eq_true] at h
    simp only [Stmt.readable, Bool.or_eq_true]
    cases hb : v.isBlank
    · right
      rcases h with h | h
      · rw [hb] at h; simp at h
      · exact (decl_indep name custom v h.1.1 h.1.2 h.2 hb st).1
    · left; rfl
  | .media ge qs body, h => by
    cases hv : (Stmt.media ge qs body).isInvisible
    · simp only [Stmt.g, hv, Bool.false_or, Bool.and_eq_true] at h
      simp only [Stmt.readable, hv, Bool.false_or, Bool.and_eq_true]
      exact ⟨(media_indep qs h.1 st).1, gs_readable st body h.2⟩
    · simp [Stmt.readable, hv]
  | .supports ge p body, h => by
    cases hv : (Stmt.supports ge p body).isInvisible
    · simp only [Stmt.g, hv, Bool.false_or, Bool.and_eq_true] at h
      simp only [Stmt.readable, hv, Bool.false_or, Bool.and_eq_true]
      exact ⟨h.1, gs_readable st body h.2⟩
    · simp [Stmt.readable, hv]
  | .unknown ge n p hb body, h => by
    simp only [Stmt.g, Bool.and_eq_true] at h
    simp only [Stmt.readable, Bool.and_eq_true]
    exact ⟨h.1, gs_readable st body h.2⟩
  | .kf sels body, h => by
    cases hv : (Stmt.kf sels body).isInvisible
    · simp only [Stmt.g, hv, Bool.false_or, Bool.and_eq_true] at h
      simp only [Stmt.readable, hv, Bool.false_or, Bool.and_eq_true]
      exact ⟨h.1, gs_readable st body h.2⟩
    · simp [Stmt.readable, hv]
  | .comment text col, h => by simpa [Stmt.g, Stmt.readable] using h
  | .import url mods, h => by simpa [Stmt.g, Stmt.readable] using h
theorem gs_readable (st : Style) : ∀ (ss : Stmts), ss.g = true → ss.readable st = true
  | .nil, _ => rfl
  | .cons s ss, h => by
    simp only [Stmts.g, Bool.and_eq_true] at h
    simp only [Stmts.readable, Bool.and_eq_true]
    exact ⟨g_readable st s h.1, gs_readable st ss h.2⟩
end

mutual
theorem g_canon : ∀ (s : Stmt), s.g = true → canonStmt .compressed s = canonStmt .expanded s
  | .rule ge sel body, h => by
    cases hv : (Stmt.rule ge sel body).isInvisible
    · simp only [Stmt.g, hv, Bool.false_or, Bool.and_eq_true] at h
      rw [canonStmt, canonStmt, sel_nm sel h.1, gs_canon body h.2]
    · rw [canonStmt, canonStmt]; simp [hv]
  | .decl name custom v, h => by
    simp only [Stmt.g, Bool.or_eq_true, Bool.and_eq_true] at h
    rw [canonStmt, canonStmt]
    cases hb : v.isBlank
    · rcases h with h | h
      · rw [hb] at h; simp at h
      · simp only [Bool.false_eq_true, if_false]
        rw [decl_nm name custom v h.1.1 h.2 hb]
    · simp
  | .media ge qs body, h => by
    cases hv : (Stmt.media ge qs body).isInvisible
    · simp only [Stmt.g, hv, Bool.false_or, Bool.and_eq_true] at h
      rw [canonStmt, canonStmt, media_nm qs h.1, gs_canon body h.2]
    · rw [canonStmt, canonStmt]; simp [hv]
  | .supports ge p body, h => by
    cases hv : (Stmt.supports ge p body).isInvisible
    · simp only [Stmt.g, hv, Bool.false_or, Bool.and_eq_true] at h
      rw [canonStmt, canonStmt, gs_canon body h.2]
    · rw [canonStmt, canonStmt]; simp [hv]
  | .unknown ge n p hb body, h => by
    simp only [Stmt.g, Bool.and_eq_true] at h
    rw [canonStmt, canonStmt, gs_canon body h.2]
  | .kf sels body, h => by
    cases hv : (Stmt.kf sels body).isInvisible
    · simp only [Stmt.g, hv, Bool.false_or, Bool.and_eq_true] at h
      rw [canonStmt, canonStmt, gs_canon body h.2]
    · rw [canonStmt, canonStmt]; simp [hv]
  | .comment text col, _ => by rw [canonStmt, canonStmt]
  | .import url mods, _ => by rw [canonStmt, canonStmt]
theorem gs_canon : ∀ (ss : Stmts), ss.g = true → canonKids .compressed ss = canonKids .expanded ss
  | .nil, _ => by rw [canonKids, canonKids]
  | .cons s ss, h => by
    simp only [Stmts.g, Bool.and_eq_true] at h
    rw [canonKids, canonKids, g_canon s h.1, gs_canon ss h.2]
end

theorem treeG_readable (st : Style) (t : List Stmt) (h : treeG t = true) : treeReadable st t = true := by
  simp only [treeG, treeReadable, List.all_eq_true] at *
  exact fun s hs => g_readable st s (h s hs)

theorem treeG_canon (t : List Stmt) (h : treeG t = true) : canonTop .compressed t = canonTop .expanded t := by
  induction t with
  | nil => rfl
  | cons s ss ih =>
    simp only [treeG, List.all_cons, Bool.and_eq_true] at h
    simp only [canonTop, g_canon s h.1, ih (by simpa [treeG] using h.2)]

end Grass.Serialize
