import Grass.Num
/-
  Helper lemmas for C07 (GrassProofs/C07.lean): rounding helpers on `Rat`, list/digit lemmas for the
  printing model.  No property theorem lives here.
-/
namespace Grass.Num

theorem absQ_neg (q : Rat) : absQ (-q) = absQ q := by
  unfold absQ; split <;> split <;> grind

theorem absQ_nonneg (q : Rat) : 0 ≤ absQ q := by
  unfold absQ; split <;> grind

theorem rnd53_neg (q : Rat) : rnd53 (-q) = - rnd53 q := by
  unfold rnd53
  by_cases h0 : q = 0
  · subst h0; simp
  · have : -q ≠ 0 := by grind
    simp only [h0, this, if_false]
    by_cases hn : q < 0
    · have : ¬ (-q < 0) := by grind
      simp [hn, this]
    · have : -q < 0 := by grind
      simp [hn, this]

theorem fuzzyEqF_refl (a : Rat) : fuzzyEqF a a = true := by
  simp [fuzzyEqF]

theorem fuzzyEqF_symm (a b : Rat) : fuzzyEqF a b = fuzzyEqF b a := by
  unfold fuzzyEqF
  have h1 : a - b = -(b - a) := by grind
  rw [h1, rnd53_neg, absQ_neg]
  have h2 : (a == b) = (b == a) := BEq.comm
  rw [h2]
  congr 2
  exact BEq.comm

theorem roundHA_nonneg_spec (q : Rat) (h : 0 ≤ q) :
    ((roundHA q : Int) : Rat) ≤ q + 1/2 ∧ q + 1/2 < ((roundHA q : Int) : Rat) + 1 := by
  unfold roundHA
  have : ¬ q < 0 := by grind
  simp only [this, if_false]
  have h1 := Rat.floor_le (q + 1/2)
  have h2 := Rat.lt_floor_add_one (q + 1/2)
  simp only [Rat.intCast_add] at h2
  constructor
  · exact h1
  · simpa using h2

theorem roundHA_neg_spec (q : Rat) (h : q < 0) :
    -q + 1/2 < (-(roundHA q : Int) : Rat) + 1 ∧ (-(roundHA q : Int) : Rat) ≤ -q + 1/2 := by
  unfold roundHA
  simp only [h, if_true]
  have h1 := Rat.floor_le (-q + 1/2)
  have h2 := Rat.lt_floor_add_one (-q + 1/2)
  simp only [Rat.intCast_add] at h2
  simp only [Rat.intCast_neg]
  constructor
  · simpa using h2
  · simpa using h1

theorem roundHA_close (A B : Rat) (h : roundHA A = roundHA B) : A - B < 1 := by
  by_cases hA : A < 0 <;> by_cases hB : B < 0
  · have := roundHA_neg_spec A hA; have := roundHA_neg_spec B hB; rw [h] at *; grind
  · have := roundHA_neg_spec A hA; grind
  · have := roundHA_nonneg_spec A (by grind); have := roundHA_neg_spec B hB; rw [h] at *; grind
  · have := roundHA_nonneg_spec A (by grind); have := roundHA_nonneg_spec B (by grind); rw [h] at *; grind

theorem bucket_close (a b : Rat) (h : bucket a = bucket b) : absQ (a - b) ≤ 1 / invEps := by
  unfold bucket at h
  have h1 := roundHA_close _ _ h
  have h2 := roundHA_close _ _ h.symm
  unfold absQ invEps at *
  split <;> grind

theorem fuzzyEqX_eq_bucket (a b : Rat) : fuzzyEqX a b = (bucket a == bucket b) := by
  unfold fuzzyEqX
  by_cases hab : a = b
  · subst hab; simp
  · by_cases hb : bucket a = bucket b
    · have := bucket_close a b hb
      simp only [bucket] at hb
      simp [this, hb, bucket]
    · simp only [bucket] at hb
      have e1 : (a == b) = false := by simp [hab]
      have e2 : (roundHA (a * invEps) == roundHA (b * invEps)) = false := by simp [hb]
      simp only [bucket, e1, e2]; simp

theorem fuzzyEqX_equivalence : Equivalence (fun a b : Rat => fuzzyEqX a b = true) where
  refl a := by simp [fuzzyEqX_eq_bucket]
  symm {a b} h := by simp [fuzzyEqX_eq_bucket] at *; exact h.symm
  trans {a b c} h1 h2 := by simp [fuzzyEqX_eq_bucket] at *; exact h1.trans h2


theorem int_eq_of_rat_close (a b : Int) (h1 : (a : Rat) < (b : Rat) + 1) (h2 : (b : Rat) < (a : Rat) + 1) : a = b := by
  have h1' : (a : Rat) < ((b + 1 : Int) : Rat) := by simpa [Rat.intCast_add] using h1
  have h2' : (b : Rat) < ((a + 1 : Int) : Rat) := by simpa [Rat.intCast_add] using h2
  rw [Rat.intCast_lt_intCast] at h1' h2'
  omega

theorem roundHA_eq_of_close (q : Rat) (k : Int) (h : 2 * absQ (q - k) < 1) : roundHA q = k := by
  apply int_eq_of_rat_close
  all_goals
    unfold absQ at h
    by_cases hq : q < 0
    · have := roundHA_neg_spec q hq
      split at h <;> grind
    · have := roundHA_nonneg_spec q (by grind)
      split at h <;> grind

theorem roundHA_intCast (k : Int) : roundHA (k : Rat) = k := by
  apply roundHA_eq_of_close
  have : (k : Rat) - (k : Rat) = 0 := by grind
  rw [this]; simp only [absQ]; grind

theorem roundHA_dist (q : Rat) : 2 * absQ (q - (roundHA q : Int)) ≤ 1 := by
  unfold absQ
  by_cases hq : q < 0
  · have := roundHA_neg_spec q hq
    split <;> grind
  · have := roundHA_nonneg_spec q (by grind)
    split <;> grind

theorem fuzzyAsIntX_sound (x : Rat) (n : Int) (h : fuzzyAsInt fuzzyEqX x = some n) :
    n = roundHA x ∧ 2 * absQ (x - n) * invEps ≤ 1 := by
  unfold fuzzyAsInt at h
  simp only at h
  split at h
  · rename_i he
    injection h with h
    subst h
    refine ⟨rfl, ?_⟩
    rw [fuzzyEqX_eq_bucket] at he
    simp only [bucket, beq_iff_eq] at he
    have e : ((roundHA x : Int) : Rat) * invEps = ((roundHA x * 100000000000 : Int) : Rat) := by
      simp [invEps, Rat.intCast_mul]
    rw [e, roundHA_intCast] at he
    have d := roundHA_dist (x * invEps)
    rw [he] at d
    simp only [Rat.intCast_mul] at d
    unfold absQ invEps at *
    split at d <;> split <;> grind
  · cases h

theorem fuzzyAsIntX_complete (x : Rat) (n : Int) (h : 2 * absQ (x - n) * invEps < 1) :
    fuzzyAsInt fuzzyEqX x = some n := by
  have hr : roundHA x = n := by
    apply roundHA_eq_of_close
    unfold absQ invEps at *
    split at h <;> split <;> grind
  unfold fuzzyAsInt
  simp only [hr]
  have hb : fuzzyEqX x (n : Rat) = true := by
    rw [fuzzyEqX_eq_bucket]
    simp only [bucket, beq_iff_eq]
    have e : (n : Rat) * invEps = ((n * 100000000000 : Int) : Rat) := by
      simp [invEps, Rat.intCast_mul]
    rw [e, roundHA_intCast]
    apply roundHA_eq_of_close
    simp only [Rat.intCast_mul]
    unfold absQ invEps at *
    split at h <;> split <;> grind
  simp [hb]

/-- generic trichotomy -/
theorem fuzzy_trichotomy (eq : Rat → Rat → Bool) (hr : ∀ a, eq a a = true) (hs : ∀ a b, eq a b = eq b a)
    (a b : Rat) :
    (fuzzyLt eq a b = true ∧ eq a b = false ∧ fuzzyLt eq b a = false) ∨
    (fuzzyLt eq a b = false ∧ eq a b = true ∧ fuzzyLt eq b a = false) ∨
    (fuzzyLt eq a b = false ∧ eq a b = false ∧ fuzzyLt eq b a = true) := by
  unfold fuzzyLt
  have hs' := hs a b
  cases he : eq a b
  · rw [he] at hs'
    have hne : a ≠ b := by intro h; subst h; rw [hr] at he; cases he
    rw [← hs']
    by_cases hl : a < b
    · have : ¬ b < a := by grind
      simp [hl, this]
    · have : b < a := by grind
      simp [hl, this]
  · rw [he] at hs'; simp [← hs']


theorem truncQ_spec (t : Rat) : (truncQ t : Rat) - 1 < t ∧ t < (truncQ t : Rat) + 1 := by
  unfold truncQ
  by_cases h : t < 0
  · simp only [h, if_true]
    have h1 := Rat.floor_le (-t)
    have h2 := Rat.lt_floor_add_one (-t)
    simp only [Rat.intCast_add, Rat.intCast_neg] at *
    constructor <;> grind
  · simp only [h, if_false]
    have h1 := Rat.floor_le t
    have h2 := Rat.lt_floor_add_one t
    simp only [Rat.intCast_add] at *
    constructor <;> grind

theorem fmodQ_eq (a b : Rat) (hb : b ≠ 0) : fmodQ a b = b * (a / b - (truncQ (a / b) : Rat)) := by
  unfold fmodQ
  have : b * (a / b) = a := by rw [Rat.mul_comm]; exact Rat.div_mul_cancel hb
  grind

theorem fmodQ_abs_lt (a b : Rat) (hb : b ≠ 0) : absQ (fmodQ a b) < absQ b := by
  rw [fmodQ_eq a b hb]
  have ⟨h1, h2⟩ := truncQ_spec (a / b)
  have hd1 : -1 < a / b - (truncQ (a / b) : Rat) := by grind
  have hd2 : a / b - (truncQ (a / b) : Rat) < 1 := by grind
  generalize (a / b - (truncQ (a / b) : Rat)) = d at *
  by_cases hpos : 0 < b
  · have e1 := Rat.mul_lt_mul_of_pos_left hd1 hpos
    have e2 := Rat.mul_lt_mul_of_pos_left hd2 hpos
    unfold absQ; split <;> split <;> grind
  · have hneg : 0 < -b := by grind
    have e1 := Rat.mul_lt_mul_of_pos_left hd1 hneg
    have e2 := Rat.mul_lt_mul_of_pos_left hd2 hneg
    unfold absQ; split <;> split <;> grind

theorem remEuclidX_bounds (a b : Rat) (hb : b ≠ 0) : 0 ≤ remEuclidX a b ∧ remEuclidX a b < absQ b := by
  have h := fmodQ_abs_lt a b hb
  unfold remEuclidX
  simp only
  unfold absQ at *
  split <;> split at h <;> split at h <;> grind

theorem remEuclidX_congr (a b : Rat) : ∃ k : Int, a = remEuclidX a b + (k : Rat) * b := by
  unfold remEuclidX fmodQ absQ
  simp only
  split
  · split
    · refine ⟨truncQ (a / b) + 1, ?_⟩; simp only [Rat.intCast_add]; grind
    · refine ⟨truncQ (a / b) - 1, ?_⟩; simp only [Rat.intCast_sub]; grind
  · refine ⟨truncQ (a / b), ?_⟩; grind

/-- Sass `%`, exact arithmetic: the result has the sign of the divisor (or is zero), is smaller
    in magnitude than the divisor, and differs from `a` by an integer multiple of `b`. -/
theorem modulo_sign (a b r : Rat) (hb : b ≠ 0) (h : moduloX a b = some r) :
    (0 < b → 0 ≤ r) ∧ (b < 0 → r ≤ 0) ∧ absQ r < absQ b ∧ ∃ k : Int, a = r + (k : Rat) * b := by
  have hb1 := remEuclidX_bounds a b hb
  obtain ⟨k, hk⟩ := remEuclidX_congr a b
  unfold moduloX at h
  split at h
  · injection h with h; subst h
    refine ⟨fun _ => hb1.1, fun _ => by grind, ?_, k, hk⟩
    unfold absQ at *; split <;> grind
  · simp only [hb] at h
    split at h
    · injection h with h; subst h
      rename_i h0
      refine ⟨fun _ => by grind, fun _ => by grind, ?_, k, by rw [h0] at hk; grind⟩
      unfold absQ; split <;> grind
    · injection h with h; subst h
      refine ⟨fun _ => by grind, fun _ => ?_, ?_, k - 1, ?_⟩
      · unfold absQ at hb1; split at hb1 <;> grind
      · unfold absQ at *; split at hb1 <;> split <;> grind
      · simp only [Rat.intCast_sub]; grind

theorem modulo_zero (a : Rat) : moduloX a 0 = none := by
  simp [moduloX]

theorem digitChar_props : ∀ d, d < 10 → (isDigit (digitChar d) = true ∧ (digitChar d).toNat - 48 = d ∧
    digitChar d ≠ '.' ∧ digitChar d ≠ '-' ∧ digitChar d ≠ '+' ∧ (digitChar d = '0' ↔ d = 0)) := by decide

/-! ### trimEnd / trimStart -/
theorem trimEnd_nil (c : Char) : trimEnd c [] = [] := rfl

theorem trimEnd_cons (c x : Char) (xs : List Char) :
    trimEnd c (x :: xs) = if trimEnd c xs = [] then (if x == c then [] else [x]) else x :: trimEnd c xs := by
  unfold trimEnd
  simp only [List.reverse_cons, List.dropWhile_append]
  cases h : List.dropWhile (fun x => x == c) xs.reverse with
  | nil => simp [List.dropWhile]; split <;> simp_all
  | cons y ys => simp

theorem trimEnd_eq_self (c : Char) (l : List Char) (h : ∀ x ∈ l, x ≠ c) : trimEnd c l = l := by
  induction l with
  | nil => rfl
  | cons x xs ih =>
    have hx : x ≠ c := h x (by simp)
    have := ih (fun y hy => h y (by simp [hy]))
    rw [trimEnd_cons, this]
    cases xs with
    | nil => simp [hx]
    | cons y ys => simp

theorem trimEnd_append_barrier (c d : Char) (A B : List Char) (hd : d ≠ c) :
    trimEnd c (A ++ d :: B) = A ++ d :: trimEnd c B := by
  induction A with
  | nil =>
    simp only [List.nil_append]
    rw [trimEnd_cons]
    split <;> simp_all
  | cons a A ih =>
    simp only [List.cons_append]
    rw [trimEnd_cons, ih]
    simp

theorem trimEnd_append_all (c : Char) (A B : List Char) (hB : trimEnd c B = []) :
    trimEnd c (A ++ B) = trimEnd c A := by
  induction A with
  | nil => simp [hB, trimEnd_nil]
  | cons a A ih =>
    simp only [List.cons_append]
    rw [trimEnd_cons, trimEnd_cons, ih]

/-- what `trimEnd '0'` leaves: the list is the result followed by zeros, and the result does not end in '0' -/
theorem trimEnd_decomp (c : Char) (l : List Char) :
    ∃ z, l = trimEnd c l ++ List.replicate z c ∧ (trimEnd c l).getLast? ≠ some c := by
  induction l with
  | nil => exact ⟨0, by simp [trimEnd_nil], by simp [trimEnd_nil]⟩
  | cons x xs ih =>
    obtain ⟨z, hz, hl⟩ := ih
    rw [trimEnd_cons]
    by_cases he : trimEnd c xs = []
    · simp only [he, if_true]
      rw [he] at hz
      by_cases hx : (x == c) = true
      · refine ⟨z + 1, ?_, by simp [hx]⟩
        have : x = c := by simpa using hx
        subst this
        simp only [hx, if_true, List.nil_append] at *
        rw [hz]; simp [List.replicate_succ]
      · refine ⟨z, ?_, ?_⟩
        · simp only [hx]; simp at hz; rw [hz]; simp
        · simp only [hx]
          have : x ≠ c := by simpa using hx
          simp [this]
    · simp only [he, if_false]
      refine ⟨z, ?_, ?_⟩
      · conv => lhs; rw [hz]
        simp
      · rw [List.getLast?_cons_of_ne_nil he]; exact hl

/-! ### digits -/
theorem valDigits_nil : valDigits [] = 0 := rfl

theorem valDigits_append_single (ds : List Char) (c : Char) :
    valDigits (ds ++ [c]) = 10 * valDigits ds + (c.toNat - 48) := by
  simp [valDigits, List.foldl_append]

theorem foldl_digits_acc (ds : List Char) (a : Nat) :
    ds.foldl (fun a c => 10 * a + (c.toNat - 48)) a = a * 10 ^ ds.length + ds.foldl (fun a c => 10 * a + (c.toNat - 48)) 0 := by
  induction ds generalizing a with
  | nil => simp
  | cons d ds ih =>
    simp only [List.foldl_cons, List.length_cons]
    rw [ih, ih (10 * 0 + (d.toNat - 48))]
    simp only [Nat.pow_succ]
    rw [Nat.add_mul, Nat.add_mul]
    simp only [Nat.mul_zero, Nat.zero_mul, Nat.zero_add]
    rw [Nat.add_assoc]
    congr 1
    ac_rfl

theorem valDigits_append (A B : List Char) :
    valDigits (A ++ B) = valDigits A * 10 ^ B.length + valDigits B := by
  unfold valDigits
  rw [List.foldl_append, foldl_digits_acc]

theorem natDigitsAux_spec (f : Nat) : ∀ n, n < f →
    valDigits (natDigitsAux f n) = n ∧ (∀ c ∈ natDigitsAux f n, isDigit c = true) ∧ natDigitsAux f n ≠ [] ∧
    ((natDigitsAux f n).head? = some '0' ↔ n = 0) := by
  induction f with
  | zero => intro n h; omega
  | succ f ih =>
    intro n hn
    unfold natDigitsAux
    by_cases h : n < 10
    · simp only [h, if_true]
      have := digitChar_props n h
      refine ⟨by simp [valDigits, this.2.1], by simp [this.1], by simp, ?_⟩
      simp [this.2.2.2.2.2]
    · simp only [h, if_false]
      have hd := digitChar_props (n % 10) (Nat.mod_lt _ (by decide))
      obtain ⟨i1, i2, i3, i4⟩ := ih (n / 10) (by omega)
      refine ⟨?_, ?_, by simp, ?_⟩
      · rw [valDigits_append_single, i1, hd.2.1]; omega
      · intro c hc
        simp only [List.mem_append, List.mem_singleton] at hc
        rcases hc with hc | hc
        · exact i2 c hc
        · rw [hc]; exact hd.1
      · cases hh : natDigitsAux f (n / 10) with
        | nil => exact absurd hh i3
        | cons y ys =>
          rw [hh] at i4
          simp only [List.cons_append, List.head?_cons] at *
          constructor
          · intro h0; have := i4.1 h0; omega
          · intro h0; omega

theorem natDigits_spec (n : Nat) :
    valDigits (natDigits n) = n ∧ (∀ c ∈ natDigits n, isDigit c = true) ∧ natDigits n ≠ [] ∧
    ((natDigits n).head? = some '0' ↔ n = 0) :=
  natDigitsAux_spec (n + 1) n (by omega)

theorem fracDigits_spec (k n : Nat) :
    valDigits (fracDigits k n) = n % 10 ^ k ∧ (∀ c ∈ fracDigits k n, isDigit c = true) ∧
    (fracDigits k n).length = k := by
  induction k generalizing n with
  | zero => simp [fracDigits, valDigits, Nat.mod_one]
  | succ k ih =>
    have hd := digitChar_props (n % 10) (Nat.mod_lt _ (by decide))
    obtain ⟨i1, i2, i3⟩ := ih (n / 10)
    refine ⟨?_, ?_, by simp [fracDigits, i3]⟩
    · simp only [fracDigits]
      rw [valDigits_append_single, i1, hd.2.1, Nat.pow_succ, Nat.mul_comm (10 ^ k) 10, Nat.mod_mul]
      omega
    · intro c hc
      simp only [fracDigits, List.mem_append, List.mem_singleton] at hc
      rcases hc with hc | hc
      · exact i2 c hc
      · rw [hc]; exact hd.1

theorem valDigits_replicate_zero (z : Nat) : valDigits (List.replicate z '0') = 0 := by
  induction z with
  | zero => rfl
  | succ z ih =>
    rw [List.replicate_succ']
    rw [valDigits_append_single, ih]; decide



/-! ### printing -/

theorem trimEnd_append_ne (c : Char) (A B : List Char) (hB : trimEnd c B ≠ []) :
    trimEnd c (A ++ B) = A ++ trimEnd c B := by
  induction A with
  | nil => simp
  | cons a A ih =>
    simp only [List.cons_append]
    rw [trimEnd_cons, ih]
    simp [hB]

theorem natDigits_zero : natDigits 0 = ['0'] := by decide

theorem digit_ne_dot (c : Char) (h : isDigit c = true) : c ≠ '.' ∧ c ≠ '-' ∧ c ≠ '+' := by
  refine ⟨?_, ?_, ?_⟩ <;> (intro e; subst e; revert h; decide)

/-- the characters written for the magnitude (code as it stands) -/
theorem printAbs_char (compressed lt1 : Bool) (s : Nat) :
    printAbs false compressed lt1 s =
      (if (compressed && lt1) = true ∧ s / 10000000000 = 0 then [] else natDigits (s / 10000000000)) ++
      (if trimEnd '0' (fracDigits 10 (s % 10000000000)) = [] then []
       else '.' :: trimEnd '0' (fracDigits 10 (s % 10000000000))) := by
  obtain ⟨_, nI, nne, nh⟩ := natDigits_spec (s / 10000000000)
  obtain ⟨_, fD, _⟩ := fracDigits_spec 10 (s % 10000000000)
  generalize hF : fracDigits 10 (s % 10000000000) = F at *
  generalize hI : natDigits (s / 10000000000) = I at *
  -- step 1: the optional trimStart
  have step1 : (if (compressed && lt1) = true then trimStart '0' (fixed10 s) else fixed10 s) =
      (if (compressed && lt1) = true ∧ s / 10000000000 = 0 then [] else I) ++ '.' :: F := by
    unfold fixed10
    rw [hF, hI]
    by_cases hc : (compressed && lt1) = true
    · simp only [hc, if_true, true_and]
      by_cases h0 : s / 10000000000 = 0
      · simp only [h0, if_true]
        rw [h0, natDigits_zero] at hI
        subst hI
        simp [trimStart, List.dropWhile]
      · simp only [h0, if_false]
        cases I with
        | nil => exact absurd rfl nne
        | cons y ys =>
          have : y ≠ '0' := by
            intro e; subst e
            exact h0 (nh.1 (by simp))
          simp [trimStart, List.dropWhile, this]
    · simp [hc]
  unfold printAbs
  simp only [Bool.false_eq_true, if_false]
  rw [step1]
  generalize hI0 : (if (compressed && lt1) = true ∧ s / 10000000000 = 0 then [] else I) = I0
  have hI0d : ∀ c ∈ I0, isDigit c = true := by
    intro c hc; rw [← hI0] at hc; split at hc
    · cases hc
    · exact nI c hc
  rw [trimEnd_append_barrier '0' '.' I0 F (by decide)]
  obtain ⟨z, hz, _⟩ := trimEnd_decomp '0' F
  have hF'd : ∀ c ∈ trimEnd '0' F, isDigit c = true := by
    intro c hc; apply fD; rw [hz]; simp [hc]
  generalize trimEnd '0' F = F' at *
  by_cases hF' : F' = []
  · subst hF'
    simp only [if_true, List.append_nil]
    rw [trimEnd_append_all '.' I0 ['.'] (by decide)]
    exact trimEnd_eq_self '.' I0 (fun x hx => (digit_ne_dot x (hI0d x hx)).1)
  · simp only [hF', if_false]
    have e : trimEnd '.' F' = F' := trimEnd_eq_self '.' F' (fun x hx => (digit_ne_dot x (hF'd x hx)).1)
    have e2 : trimEnd '.' ('.' :: F') = '.' :: F' := by rw [trimEnd_cons, e]; simp [hF']
    rw [trimEnd_append_ne '.' I0 ('.' :: F') (by rw [e2]; simp), e2]

theorem takeWhile_digits (A B : List Char) (hA : ∀ c ∈ A, isDigit c = true)
    (hB : B = [] ∨ ∃ r, B = '.' :: r) :
    (A ++ B).takeWhile isDigit = A ∧ (A ++ B).dropWhile isDigit = B := by
  induction A with
  | nil =>
    rcases hB with rfl | ⟨r, rfl⟩
    · simp
    · have : isDigit '.' = false := by decide
      simp [List.takeWhile, List.dropWhile, this]
  | cons a A ih =>
    have ha := hA a (by simp)
    have := ih (fun c hc => hA c (by simp [hc]))
    simp [List.takeWhile, List.dropWhile, ha, this]

theorem parseBody_digits (neg : Bool) (I F : List Char) (hI : ∀ c ∈ I, isDigit c = true)
    (hF : ∀ c ∈ F, isDigit c = true) (hne : I ≠ [] ∨ F ≠ []) :
    parseBody neg (I ++ (if F = [] then [] else '.' :: F)) = some { neg := neg, int := I, frac := F, exp := 0 } := by
  unfold parseBody
  by_cases hF0 : F = []
  · subst hF0
    have hI0 : I ≠ [] := by simpa using hne
    have ⟨t1, t2⟩ := takeWhile_digits I [] hI (Or.inl rfl)
    simp only [if_true, List.append_nil] at *
    simp only [t1, t2, hI0, false_and, if_false]
    simp [parseExp]
  · have ⟨t1, t2⟩ := takeWhile_digits I ('.' :: F) hI (Or.inr ⟨F, rfl⟩)
    have ⟨u1, u2⟩ := takeWhile_digits F [] hF (Or.inl rfl)
    simp only [List.append_nil] at u1 u2
    simp only [hF0, if_false, t1, t2]
    simp [u1, u2, hF0, parseExp]


theorem divRoundEven_close (num den : Nat) (hd : 0 < den) :
    2 * num ≤ 2 * (divRoundEven num den * den) + den ∧ 2 * (divRoundEven num den * den) ≤ 2 * num + den := by
  unfold divRoundEven
  have h1 := Nat.div_add_mod num den
  have h2 := Nat.mod_lt num hd
  generalize num / den = q at *
  generalize num % den = r at *
  have e : den * q = q * den := Nat.mul_comm _ _
  have e2 : (q + 1) * den = q * den + den := by rw [Nat.add_mul]; simp
  simp only
  split
  · omega
  · split
    · rw [e2]; omega
    · split
      · omega
      · rw [e2]; omega

theorem div_eq_div_of_cross (a b c d : Rat) (hb : b ≠ 0) (hd : d ≠ 0) (h : a * d = c * b) : a / b = c / d := by
  grind

theorem rat_mul_den (x : Rat) : x * (x.den : Rat) = (x.num : Rat) := by
  have h : x = (x.num : Rat) / (x.den : Rat) := by
    rw [← Rat.mkRat_eq_div, Rat.mkRat_self]
  have hd : (x.den : Rat) ≠ 0 := by
    have := x.den_pos
    intro e; rw [Rat.natCast_eq_zero_iff] at e; omega
  conv => lhs; arg 1; rw [h]
  exact Rat.div_mul_cancel hd

theorem absQ_mul_den (x : Rat) : absQ x * (x.den : Rat) = (x.num.natAbs : Rat) := by
  have h := rat_mul_den x
  unfold absQ
  split
  · rename_i hx
    have hn : x.num < 0 := by
      have := @Rat.num_nonneg x
      by_cases h1 : 0 ≤ x.num
      · have := this.1 h1; grind
      · omega
    have e : ((x.num.natAbs : Nat) : Rat) = ((-(x.num) : Int) : Rat) := by
      rw [← Rat.intCast_natCast]; congr 1; omega
    rw [e, Rat.intCast_neg, ← h]; grind
  · rename_i hx
    have hn : 0 ≤ x.num := Rat.num_nonneg.2 (by grind)
    have e : ((x.num.natAbs : Nat) : Rat) = ((x.num : Int) : Rat) := by
      rw [← Rat.intCast_natCast]; congr 1; omega
    rw [e, h]

theorem round10_close (x : Rat) : 2 * absQ (round10 x - x) * 10000000000 ≤ 1 := by
  have hd : 0 < x.den := x.den_pos
  have hdq : (0 : Rat) < (x.den : Rat) := Rat.natCast_pos.2 hd
  obtain ⟨c1, c2⟩ := divRoundEven_close (x.num.natAbs * 10000000000) x.den hd
  have hX := absQ_mul_den x
  -- cast the two natural-number inequalities
  have c1' : 2 * ((x.num.natAbs : Nat) : Rat) * 10000000000 ≤ 2 * ((scaled10 x : Nat) : Rat) * (x.den : Rat) + (x.den : Rat) := by
    have := Rat.natCast_le_natCast.2 c1
    simp only [Rat.natCast_add, Rat.natCast_mul] at this
    unfold scaled10; simp at this ⊢; grind
  have c2' : 2 * ((scaled10 x : Nat) : Rat) * (x.den : Rat) ≤ 2 * ((x.num.natAbs : Nat) : Rat) * 10000000000 + (x.den : Rat) := by
    have := Rat.natCast_le_natCast.2 c2
    simp only [Rat.natCast_add, Rat.natCast_mul] at this
    unfold scaled10; simp at this ⊢; grind
  rw [← hX] at c1' c2'
  unfold round10
  simp only
  generalize ((scaled10 x : Nat) : Rat) = s at *
  have hsv : s / 10000000000 * 10000000000 = s := Rat.div_mul_cancel (by decide)
  generalize hv : s / 10000000000 = v at *
  generalize (x.den : Rat) = d at *
  -- the goal, multiplied by d
  apply Rat.le_of_mul_le_mul_right _ hdq
  unfold absQ at *
  clear c1 c2
  split at hX <;> rename_i hx
  · simp only [hx, if_true] at c1' c2' ⊢
    clear hX
    split
    · have e : 2 * -(-v - x) * 10000000000 * d = 2 * ((v * 10000000000) * d - (-x * d) * 10000000000) := by grind
      rw [e, hsv]; grind
    · have e : 2 * (-v - x) * 10000000000 * d = 2 * ((-x * d) * 10000000000 - (v * 10000000000) * d) := by grind
      rw [e, hsv]; grind
  · simp only [hx, if_false] at c1' c2' ⊢
    clear hX
    split
    · have e : 2 * -(v - x) * 10000000000 * d = 2 * ((x * d) * 10000000000 - (v * 10000000000) * d) := by grind
      rw [e, hsv]; grind
    · have e : 2 * (v - x) * 10000000000 * d = 2 * ((v * 10000000000) * d - (x * d) * 10000000000) := by grind
      rw [e, hsv]; grind
/-- the digit lists `printAbs` writes, and their value -/
theorem print_digits_value (cl : Bool) (s : Nat) (I0 F' : List Char)
    (hI : I0 = if cl = true ∧ s / 10000000000 = 0 then [] else natDigits (s / 10000000000))
    (hF : F' = trimEnd '0' (fracDigits 10 (s % 10000000000))) :
    (∀ c ∈ I0, isDigit c = true) ∧ (∀ c ∈ F', isDigit c = true) ∧ F'.getLast? ≠ some '0' ∧ F'.length ≤ 10 ∧
    valDigits (I0 ++ F') * 10000000000 = s * 10 ^ F'.length ∧
    (I0 = [] → s / 10000000000 = 0) ∧ (I0 = ['0'] → s / 10000000000 = 0) ∧ (F' = [] → s % 10000000000 = 0) ∧
    (I0.head? = some '0' → I0 = ['0']) := by
  obtain ⟨nv, nI, nne, nh⟩ := natDigits_spec (s / 10000000000)
  obtain ⟨fv, fD, fl⟩ := fracDigits_spec 10 (s % 10000000000)
  obtain ⟨z, hz, hlast⟩ := trimEnd_decomp '0' (fracDigits 10 (s % 10000000000))
  rw [← hF] at hz hlast
  have hmod : s % 10000000000 % 10 ^ 10 = s % 10000000000 := Nat.mod_eq_of_lt (Nat.mod_lt _ (by decide))
  rw [hmod] at fv
  have hlen : F'.length + z = 10 := by
    have := congrArg List.length hz
    simp only [List.length_append, List.length_replicate] at this
    omega
  have hvF : valDigits F' * 10 ^ z = s % 10000000000 := by
    rw [← fv, hz, valDigits_append, valDigits_replicate_zero]; simp
  have hvI : valDigits I0 = s / 10000000000 := by
    rw [hI]; split
    · rename_i h; rw [h.2]; rfl
    · exact nv
  have hP : (10000000000 : Nat) = 10 ^ F'.length * 10 ^ z := by
    rw [← Nat.pow_add, hlen]
  refine ⟨?_, ?_, hlast, by omega, ?_, ?_, ?_, ?_, ?_⟩
  · intro c hc; rw [hI] at hc; split at hc
    · cases hc
    · exact nI c hc
  · intro c hc; apply fD; rw [hz]; simp [hc]
  · rw [valDigits_append, hvI]
    have hs := Nat.div_add_mod s 10000000000
    rw [← hvF] at hs
    generalize s / 10000000000 = ip at *
    generalize valDigits F' = v at *
    rw [← hs]
    rw [hP]
    generalize 10 ^ F'.length = a
    generalize 10 ^ z = b
    grind
  · intro h0; rw [hI] at h0; split at h0
    · rename_i h; exact h.2
    · exact absurd h0 nne
  · intro h0; rw [← hvI, h0]; rfl
  · intro h0; rw [← hvF, h0]; simp [valDigits]
  · intro hh; rw [hI] at hh ⊢; split at hh
    · cases hh
    · rename_i hc
      have := nh.1 hh
      simp only [hc, if_false]
      rw [this, natDigits_zero]



theorem lit_value_eq (neg : Bool) (I0 F' : List Char) (s : Nat)
    (h : valDigits (I0 ++ F') * 10000000000 = s * 10 ^ F'.length) :
    ({ neg := neg, int := I0, frac := F', exp := 0 } : Lit).value =
      if neg = true then -((s : Rat) / 10000000000) else (s : Rat) / 10000000000 := by
  have hA : ((10 ^ F'.length : Nat) : Rat) ≠ 0 := by
    intro e; rw [Rat.natCast_eq_zero_iff] at e
    have := @Nat.pow_pos 10 F'.length (by decide)
    omega
  have hc : ((valDigits (I0 ++ F') : Nat) : Rat) * (10000000000 : Rat) = (s : Rat) * ((10 ^ F'.length : Nat) : Rat) := by
    have := congrArg (fun n : Nat => (n : Rat)) h
    simp only [Rat.natCast_mul] at this
    simpa using this
  have key := div_eq_div_of_cross _ _ _ _ hA (by decide : (10000000000 : Rat) ≠ 0) hc
  have one : ((1 : Nat) : Rat) = 1 := rfl
  unfold Lit.value
  simp only [Int.toNat_zero, Nat.pow_zero, ge_iff_le, Int.le_refl, if_true, one, Rat.mul_one]
  rw [key]

theorem body_head (I0 F' : List Char) (dI : ∀ c ∈ I0, isDigit c = true) (c : Char) (r : List Char)
    (h : I0 ++ (if F' = [] then [] else '.' :: F') = c :: r) : c ≠ '-' ∧ c ≠ '+' := by
  cases I0 with
  | nil =>
    simp only [List.nil_append] at h
    split at h
    · cases h
    · injection h with h1 _; subst h1; decide
  | cons y ys =>
    simp only [List.cons_append] at h
    injection h with h1 _; subst h1
    have := digit_ne_dot y (dI y (by simp))
    exact ⟨this.2.1, this.2.2⟩

/-- an empty or "0" body means both digit lists are trivial -/
theorem body_trivial (I0 F' : List Char)
    (hb : I0 ++ (if F' = [] then [] else '.' :: F') = [] ∨ I0 ++ (if F' = [] then [] else '.' :: F') = ['0']) :
    F' = [] ∧ (I0 = [] ∨ I0 = ['0']) := by
  by_cases hF : F' = []
  · subst hF
    simp only [if_true, List.append_nil] at hb
    exact ⟨rfl, hb⟩
  · simp only [hF, if_false] at hb
    rcases hb with hb | hb
    · have := (List.append_eq_nil_iff.1 hb).2; cases this
    · cases I0 with
      | nil => simp only [List.nil_append] at hb; injection hb with h1 _; exact absurd h1 (by decide)
      | cons y ys =>
        simp only [List.cons_append] at hb
        injection hb with _ h2
        have := (List.append_eq_nil_iff.1 h2).2; cases this

abbrev special (buf : List Char) : Prop := buf = [] ∨ buf = ['-'] ∨ buf = ['-', '0']

theorem printFinite_unfold (compressed : Bool) (x : Rat) :
    printFinite false compressed x =
      if special ((if x < 0 then ['-'] else []) ++ printAbs false compressed (decide (absQ x < 1)) (scaled10 x))
      then ['0'] else (if x < 0 then ['-'] else []) ++ printAbs false compressed (decide (absQ x < 1)) (scaled10 x) := by
  rfl

theorem special_body (neg : Prop) [Decidable neg] (body : List Char)
    (hhead : ∀ (c : Char) (r : List Char), body = c :: r → c ≠ '-' ∧ c ≠ '+')
    (hsp : ((if neg then ['-'] else []) ++ body = [] ∨ (if neg then ['-'] else []) ++ body = ['-'] ∨
            (if neg then ['-'] else []) ++ body = ['-', '0'])) : body = [] ∨ body = ['0'] := by
  by_cases hx : neg
  · rw [if_pos hx] at hsp
    rcases hsp with h | h | h
    · exact absurd h (List.cons_ne_nil _ _)
    · exact Or.inl (List.cons.inj h).2
    · exact Or.inr (List.cons.inj h).2
  · rw [if_neg hx] at hsp
    rcases hsp with h | h | h
    · exact Or.inl h
    · exact absurd rfl (hhead '-' [] h).1
    · exact absurd rfl (hhead '-' ['0'] h).1

theorem parse_signed_body (neg : Prop) [Decidable neg] (body : List Char)
    (hhead : ∀ (c : Char) (r : List Char), body = c :: r → c ≠ '-' ∧ c ≠ '+')
    (l : Bool → Lit) (hp : ∀ b, parseBody b body = some (l b)) :
    parseLit ((if neg then ['-'] else []) ++ body) = some (l (decide neg)) := by
  by_cases hx : neg
  · rw [if_pos hx, decide_eq_true hx]
    exact hp true
  · rw [if_neg hx, decide_eq_false hx]
    show parseLit body = some (l false)
    unfold parseLit
    split
    · rename_i r; exact absurd rfl (hhead '-' r rfl).1
    · rename_i r; exact absurd rfl (hhead '+' r rfl).2
    · exact hp false

theorem printFinite_parse (compressed : Bool) (x : Rat) :
    ∃ l, parseLit (printFinite false compressed x) = some l ∧ l.value = round10 x := by
  rw [printFinite_unfold, printAbs_char]
  generalize hI : (if (compressed && decide (absQ x < 1)) = true ∧ scaled10 x / 10000000000 = 0 then []
      else natDigits (scaled10 x / 10000000000)) = I0
  generalize hF : trimEnd '0' (fracDigits 10 (scaled10 x % 10000000000)) = F'
  obtain ⟨dI, dF, _, _, hval, hI0nil, hI0z, hF0, _⟩ :=
    print_digits_value (compressed && decide (absQ x < 1)) (scaled10 x) I0 F' hI.symm hF.symm
  have hs := Nat.div_add_mod (scaled10 x) 10000000000
  have hhead := body_head I0 F' dI
  have htriv := body_trivial I0 F'
  generalize hbody : I0 ++ (if F' = [] then [] else '.' :: F') = body at *
  by_cases hsp : special ((if x < 0 then ['-'] else []) ++ body)
  · rw [if_pos hsp]
    refine ⟨⟨false, ['0'], [], 0⟩, by decide, ?_⟩
    have ht := htriv (special_body (x < 0) body hhead hsp)
    have e1 : scaled10 x % 10000000000 = 0 := hF0 ht.1
    have e2 : scaled10 x / 10000000000 = 0 := by
      rcases ht.2 with h | h
      · exact hI0nil h
      · exact hI0z h
    have hz : scaled10 x = 0 := by rw [e1, e2] at hs; omega
    have hv0 : ({ neg := false, int := ['0'], frac := [], exp := 0 } : Lit).value = 0 := by decide +kernel
    have z0 : ((0 : Nat) : Rat) / 10000000000 = 0 := by decide +kernel
    rw [hv0]
    unfold round10
    rw [hz, z0]
    split <;> rfl
  · rw [if_neg hsp]
    have hne : I0 ≠ [] ∨ F' ≠ [] := by
      by_cases h1 : I0 = []
      · by_cases h2 : F' = []
        · exfalso; apply hsp
          have : body = [] := by rw [← hbody, h1, h2]; rfl
          rw [this]
          by_cases hx : x < 0
          · rw [if_pos hx]; exact Or.inr (Or.inl rfl)
          · rw [if_neg hx]; exact Or.inl rfl
        · exact Or.inr h2
      · exact Or.inl h1
    have hp := fun neg => parseBody_digits neg I0 F' dI dF hne
    rw [hbody] at hp
    refine ⟨_, parse_signed_body (x < 0) body hhead _ hp, ?_⟩
    rw [lit_value_eq (decide (x < 0)) I0 F' (scaled10 x) hval]
    unfold round10
    simp only [decide_eq_true_eq]


/-! ### shape of the printed text -/

def stripMinus (s : List Char) : List Char := match s with
  | '-' :: r => r
  | _ => s
def fracOKb (body : List Char) : Bool :=
  match body.dropWhile isDigit with
  | [] => body.takeWhile isDigit ≠ []
  | '.' :: f => f ≠ [] && f.all isDigit && f.length ≤ 10 && f.getLast? ≠ some '0'
  | _ => false
def allZeroB (body : List Char) : Bool :=
  (body.takeWhile isDigit ++ body.dropWhile isDigit).all (fun c => c == '0' || c == '.')

theorem shapeOK_eq (s : List Char) :
    shapeOK s = (fracOKb (stripMinus s) && !(s.head? == some '-' && allZeroB (stripMinus s))) := rfl

theorem stripMinus_other (body : List Char) (h : ∀ r, body ≠ '-' :: r) : stripMinus body = body := by
  unfold stripMinus
  split
  · rename_i r; exact absurd rfl (h r)
  · rfl

theorem fracOKb_body (I0 F' : List Char)
    (dI : ∀ c ∈ I0, isDigit c = true) (dF : ∀ c ∈ F', isDigit c = true)
    (hne : I0 ≠ [] ∨ F' ≠ []) (hlen : F'.length ≤ 10) (hlast : F'.getLast? ≠ some '0') :
    fracOKb (I0 ++ (if F' = [] then [] else '.' :: F')) = true := by
  unfold fracOKb
  by_cases hF : F' = []
  · have hI : I0 ≠ [] := by
      rcases hne with h | h
      · exact h
      · exact absurd hF h
    have ⟨t1, t2⟩ := takeWhile_digits I0 [] dI (Or.inl rfl)
    simp only [hF, if_true, t1, t2]
    simp [hI]
  · have ⟨t1, t2⟩ := takeWhile_digits I0 ('.' :: F') dI (Or.inr ⟨F', rfl⟩)
    have ha : F'.all isDigit = true := List.all_eq_true.2 dF
    simp only [hF, if_false, t2]
    simp [hF, ha, hlen, hlast]

theorem allZeroB_false (body : List Char) (c : Char) (hc : c ∈ body) (h0 : c ≠ '0') (hd : c ≠ '.') :
    allZeroB body = false := by
  unfold allZeroB
  rw [List.takeWhile_append_dropWhile]
  apply Bool.eq_false_iff.2
  intro h
  have := List.all_eq_true.1 h c hc
  simp [h0, hd] at this

theorem shapeOK_body (neg : Prop) [Decidable neg] (I0 F' : List Char)
    (dI : ∀ c ∈ I0, isDigit c = true) (dF : ∀ c ∈ F', isDigit c = true)
    (hne : I0 ≠ [] ∨ F' ≠ []) (hlen : F'.length ≤ 10) (hlast : F'.getLast? ≠ some '0')
    (hnz : neg → ∃ c ∈ I0 ++ (if F' = [] then [] else '.' :: F'), c ≠ '0' ∧ c ≠ '.') :
    shapeOK ((if neg then ['-'] else []) ++ (I0 ++ (if F' = [] then [] else '.' :: F'))) = true := by
  have hhead := body_head I0 F' dI
  have hfr := fracOKb_body I0 F' dI dF hne hlen hlast
  generalize hbody : I0 ++ (if F' = [] then [] else '.' :: F') = body at *
  rw [shapeOK_eq]
  by_cases hn : neg
  · rw [if_pos hn]
    obtain ⟨c, hc, hc0, hcd⟩ := hnz hn
    have hz := allZeroB_false body c hc hc0 hcd
    show (fracOKb body && !(some '-' == some '-' && allZeroB body)) = true
    rw [hfr, hz]; rfl
  · rw [if_neg hn]
    show (fracOKb (stripMinus body) && !(body.head? == some '-' && allZeroB (stripMinus body))) = true
    rw [stripMinus_other body (fun r h => (hhead '-' r h).1 rfl), hfr]
    have hh : (body.head? == some '-') = false := by
      cases hb' : body with
      | nil => rfl
      | cons c r =>
        have := (hhead c r hb').1
        simp [this]
    rw [hh]; rfl

theorem printFinite_shape (compressed : Bool) (x : Rat) :
    shapeOK (printFinite false compressed x) = true := by
  rw [printFinite_unfold, printAbs_char]
  generalize hI : (if (compressed && decide (absQ x < 1)) = true ∧ scaled10 x / 10000000000 = 0 then []
      else natDigits (scaled10 x / 10000000000)) = I0
  generalize hF : trimEnd '0' (fracDigits 10 (scaled10 x % 10000000000)) = F'
  obtain ⟨dI, dF, hlast, hlen, _, _, _, _, hh0⟩ :=
    print_digits_value (compressed && decide (absQ x < 1)) (scaled10 x) I0 F' hI.symm hF.symm
  by_cases hsp : special ((if x < 0 then ['-'] else []) ++ (I0 ++ if F' = [] then [] else '.' :: F'))
  · rw [if_pos hsp]; decide
  · rw [if_neg hsp]
    have hne : I0 ≠ [] ∨ F' ≠ [] := by
      by_cases h1 : I0 = []
      · by_cases h2 : F' = []
        · exfalso; apply hsp
          rw [h1, h2]
          by_cases hx : x < 0
          · rw [if_pos hx]; exact Or.inr (Or.inl rfl)
          · rw [if_neg hx]; exact Or.inl rfl
        · exact Or.inr h2
      · exact Or.inl h1
    apply shapeOK_body (x < 0) I0 F' dI dF hne hlen hlast
    intro hx
    by_cases hF0 : F' = []
    · -- body = I0, whose head is a non-zero digit (otherwise the buffer would be "-0")
      cases hI0 : I0 with
      | nil => rcases hne with h | h
               · exact absurd hI0 h
               · exact absurd hF0 h
      | cons c r =>
        refine ⟨c, by simp [hF0], ?_, (digit_ne_dot c (dI c (by rw [hI0]; simp))).1⟩
        intro hc0
        apply hsp
        have : I0 = ['0'] := hh0 (by rw [hI0, hc0]; rfl)
        rw [this, hF0, if_pos hx]
        exact Or.inr (Or.inr rfl)
    · refine ⟨F'.getLast hF0, ?_, ?_, ?_⟩
      · simp only [hF0, if_false, List.mem_append, List.mem_cons]
        exact Or.inr (Or.inr (List.getLast_mem hF0))
      · intro e; apply hlast; rw [List.getLast?_eq_some_getLast hF0, e]
      · exact (digit_ne_dot _ (dF _ (List.getLast_mem hF0))).1


/-! ### no superfluous leading zero -/

def leadB (compressed : Bool) (body : List Char) : Bool :=
  match body with
  | '0' :: c :: _ => if compressed then false else c == '.'
  | _ => true

theorem leadOK_eq (compressed : Bool) (s : List Char) : leadOK compressed s = leadB compressed (stripMinus s) := rfl

theorem divRoundEven_ge (num den : Nat) : num / den ≤ divRoundEven num den := by
  unfold divRoundEven
  simp only
  split
  · omega
  · split
    · omega
    · split <;> omega

theorem scaled10_ge (x : Rat) (h : ¬ absQ x < 1) : 10000000000 ≤ scaled10 x := by
  have hd : 0 < x.den := x.den_pos
  have hX := absQ_mul_den x
  have h1 : (1 : Rat) ≤ absQ x := by grind
  have h2 := Rat.mul_le_mul_of_nonneg_right h1 (Rat.natCast_nonneg (a := x.den))
  rw [hX, Rat.one_mul] at h2
  have h3 : x.den ≤ x.num.natAbs := Rat.natCast_le_natCast.1 h2
  unfold scaled10
  refine Nat.le_trans ?_ (divRoundEven_ge _ _)
  rw [Nat.le_div_iff_mul_le hd]
  rw [Nat.mul_comm]
  exact Nat.mul_le_mul_right _ h3

theorem leadB_body (compressed : Bool) (I0 F' : List Char)
    (hh0 : I0.head? = some '0' → I0 = ['0'])
    (hc : compressed = true → ¬(I0 = ['0'] ∧ F' ≠ [])) :
    leadB compressed (I0 ++ (if F' = [] then [] else '.' :: F')) = true := by
  cases hI : I0 with
  | nil =>
    by_cases hF : F' = []
    · simp [hF, leadB]
    · simp only [hF, if_false, List.nil_append]
      unfold leadB
      split
      · rename_i c r heq; injection heq with h1 _; exact absurd h1 (by decide)
      · rfl
  | cons a r =>
    by_cases ha : a = '0'
    · have h1 : I0 = ['0'] := hh0 (by rw [hI, ha]; rfl)
      rw [hI] at h1
      injection h1 with _ hr
      subst ha; subst hr
      by_cases hF : F' = []
      · simp [hF, leadB]
      · cases compressed with
        | true => exact absurd ⟨hI, hF⟩ (hc rfl)
        | false => simp [hF, leadB]
    · unfold leadB
      split
      · rename_i c r' heq
        simp only [List.cons_append] at heq
        injection heq with h1 _
        exact absurd h1 ha
      · rfl

theorem lead_special (compressed : Bool) : leadOK compressed ['0'] = true := by
  cases compressed <;> rfl

theorem printFinite_lead (compressed : Bool) (x : Rat) :
    leadOK compressed (printFinite false compressed x) = true := by
  rw [printFinite_unfold, printAbs_char]
  generalize hI : (if (compressed && decide (absQ x < 1)) = true ∧ scaled10 x / 10000000000 = 0 then []
      else natDigits (scaled10 x / 10000000000)) = I0
  generalize hF : trimEnd '0' (fracDigits 10 (scaled10 x % 10000000000)) = F'
  obtain ⟨dI, _, _, _, _, _, hz, _, hh0⟩ :=
    print_digits_value (compressed && decide (absQ x < 1)) (scaled10 x) I0 F' hI.symm hF.symm
  have hhead := body_head I0 F' dI
  have hc : compressed = true → ¬(I0 = ['0'] ∧ F' ≠ []) := by
    intro hcomp hcon
    have h1 := hcon.1
    have hip := hz h1
    by_cases hlt : absQ x < 1
    · have hcond : (compressed && decide (absQ x < 1)) = true ∧ scaled10 x / 10000000000 = 0 :=
        ⟨by rw [hcomp, decide_eq_true hlt]; rfl, hip⟩
      rw [← hI, if_pos hcond] at h1
      cases h1
    · have h2 := scaled10_ge x hlt
      have h3 := Nat.div_pos h2 (by decide : 0 < 10000000000)
      rw [hip] at h3
      exact absurd h3 (by decide)
  have hb := leadB_body compressed I0 F' hh0 hc
  generalize hbody : I0 ++ (if F' = [] then [] else '.' :: F') = body at *
  by_cases hsp : special ((if x < 0 then ['-'] else []) ++ body)
  · rw [if_pos hsp]; exact lead_special compressed
  · rw [if_neg hsp, leadOK_eq]
    by_cases hx : x < 0
    · rw [if_pos hx]
      have e : stripMinus (['-'] ++ body) = body := rfl
      rw [e]; exact hb
    · rw [if_neg hx]
      have e2 : stripMinus body = body := stripMinus_other body (fun r h => (hhead '-' r h).1 rfl)
      rw [List.nil_append, e2]
      exact hb

/-! ### `rnd53` is round-to-nearest -/

/-! ### `pow2` is the integer power of two -/
theorem pow2_eq_zpow (e : Int) : pow2 e = (2 : Rat) ^ e := by
  unfold pow2
  by_cases h : e ≥ 0
  · simp only [h, if_true]
    have : e = (e.toNat : Int) := by omega
    conv => rhs; rw [this]
    rw [Rat.zpow_natCast, Rat.natCast_pow]; rfl
  · simp only [h, if_false]
    have : e = -((-e).toNat : Int) := by omega
    conv => rhs; rw [this]
    rw [Rat.zpow_neg, Rat.zpow_natCast, Rat.natCast_pow, Rat.div_def, Rat.one_mul]; rfl

theorem pow2_pos (e : Int) : 0 < pow2 e := by
  rw [pow2_eq_zpow]; exact Rat.zpow_pos (by decide)

theorem pow2_add (a b : Int) : pow2 (a + b) = pow2 a * pow2 b := by
  simp only [pow2_eq_zpow]; exact Rat.zpow_add (by decide) a b

theorem pow2_natCast (n : Nat) : pow2 (n : Int) = ((2 ^ n : Nat) : Rat) := by
  unfold pow2; simp

theorem pow2_succ (e : Int) : pow2 (e + 1) = 2 * pow2 e := by
  rw [pow2_add, Rat.mul_comm]; congr 1

theorem pow2_neg_mul (a : Int) : pow2 (-a) * pow2 a = 1 := by
  rw [← pow2_add]; have : -a + a = 0 := by omega
  rw [this]; rfl

/-- `a ≤ b / c ↔ a * c ≤ b` -/
theorem le_div_iff' (a b c : Rat) (hc : 0 < c) : a ≤ b / c ↔ a * c ≤ b := by
  constructor
  · intro h; rcases Rat.le_iff_lt_or_eq.1 h with h | h
    · exact Rat.le_of_lt ((Rat.lt_div_iff hc).1 h)
    · rw [h, Rat.div_mul_cancel (by grind)]; exact Rat.le_refl
  · intro h
    apply Rat.not_lt.1
    intro h2
    have := (Rat.div_lt_iff hc).1 h2
    grind

theorem natCast_pos' (n : Nat) (h : 0 < n) : (0 : Rat) < (n : Rat) := Rat.natCast_pos.2 h

/-- `geP2` decides `2^d ≤ num/den` -/
theorem geP2_iff (num den : Nat) (hd : 0 < den) (d : Int) :
    geP2 num den d = true ↔ pow2 d ≤ (num : Rat) / (den : Rat) := by
  have hdq := natCast_pos' den hd
  rw [le_div_iff' _ _ _ hdq]
  unfold geP2 pow2
  by_cases h : d ≥ 0
  · simp only [h, if_true, decide_eq_true_eq]
    rw [← Rat.natCast_mul, Rat.natCast_le_natCast, Nat.mul_comm]
  · simp only [h, if_false, decide_eq_true_eq]
    have hp : (0 : Rat) < ((2 ^ (-d).toNat : Nat) : Rat) := natCast_pos' _ (Nat.pow_pos (by decide))
    generalize (2 ^ (-d).toNat : Nat) = P at *
    constructor
    · intro hh
      have : (den : Rat) ≤ (num : Rat) * (P : Rat) := by
        rw [← Rat.natCast_mul]; exact Rat.natCast_le_natCast.2 hh
      have e : 1 / (P : Rat) * (den : Rat) = (den : Rat) / (P : Rat) := by grind
      rw [e]
      apply Rat.not_lt.1
      intro h2
      have := (Rat.lt_div_iff hp).1 h2
      grind
    · intro hh
      have e : 1 / (P : Rat) * (den : Rat) = (den : Rat) / (P : Rat) := by grind
      rw [e] at hh
      have : (den : Rat) ≤ (num : Rat) * (P : Rat) := by
        apply Rat.not_lt.1
        intro h2
        have := (Rat.lt_div_iff hp).2 h2
        grind
      rw [← Rat.natCast_mul] at this
      exact Rat.natCast_le_natCast.1 this

theorem div_lt_of (a c d : Rat) (hd : 0 < d) (h : a < c * d) : a / d < c := (Rat.div_lt_iff hd).2 h

theorem binExp_spec (num den : Nat) (hn : 0 < num) (hd : 0 < den) :
    pow2 (binExp num den) ≤ (num : Rat) / (den : Rat) ∧ (num : Rat) / (den : Rat) < pow2 (binExp num den + 1) := by
  have hdq := natCast_pos' den hd
  have l1 : ((2 ^ num.log2 : Nat) : Rat) ≤ (num : Rat) := Rat.natCast_le_natCast.2 (Nat.log2_self_le (by omega))
  have l2 : (num : Rat) < ((2 ^ (num.log2 + 1) : Nat) : Rat) := Rat.natCast_lt_natCast.2 Nat.lt_log2_self
  have l3 : ((2 ^ den.log2 : Nat) : Rat) ≤ (den : Rat) := Rat.natCast_le_natCast.2 (Nat.log2_self_le (by omega))
  have l4 : (den : Rat) < ((2 ^ (den.log2 + 1) : Nat) : Rat) := Rat.natCast_lt_natCast.2 Nat.lt_log2_self
  rw [← pow2_natCast] at l1 l2 l3 l4
  generalize hdd : (num.log2 : Int) - (den.log2 : Int) = d
  -- upper: Q < 2^(d+1)
  have up : (num : Rat) / (den : Rat) < pow2 (d + 1) := by
    apply div_lt_of _ _ _ hdq
    have e : pow2 (d + 1) * pow2 (den.log2 : Int) = pow2 ((num.log2 + 1 : Nat) : Int) := by
      rw [← pow2_add]; congr 1; push_cast; omega
    have := Rat.mul_le_mul_of_nonneg_left l3 (Rat.le_of_lt (pow2_pos (d + 1)))
    rw [e] at this
    grind
  -- lower: 2^(d-1) ≤ Q
  have lo : pow2 (d - 1) ≤ (num : Rat) / (den : Rat) := by
    rw [le_div_iff' _ _ _ hdq]
    have e : pow2 (d - 1) * pow2 ((den.log2 + 1 : Nat) : Int) = pow2 (num.log2 : Int) := by
      rw [← pow2_add]; congr 1; push_cast; omega
    have := Rat.mul_le_mul_of_nonneg_left (Rat.le_of_lt l4) (Rat.le_of_lt (pow2_pos (d - 1)))
    rw [e] at this
    exact Rat.le_trans this l1
  unfold binExp
  simp only [hdd]
  by_cases hg : geP2 num den d = true
  · simp only [hg, if_true]
    exact ⟨(geP2_iff num den hd d).1 hg, up⟩
  · have hg' : geP2 num den d = false := by simpa using hg
    simp only [hg', Bool.false_eq_true, if_false]
    refine ⟨lo, ?_⟩
    have : d - 1 + 1 = d := by omega
    rw [this]
    apply Rat.not_le.1
    intro h; exact hg ((geP2_iff num den hd d).2 h)

theorem dre_rat (N D : Nat) (hD : 0 < D) :
    2 * ((N : Rat) / (D : Rat)) ≤ 2 * (divRoundEven N D : Rat) + 1 ∧
    2 * (divRoundEven N D : Rat) ≤ 2 * ((N : Rat) / (D : Rat)) + 1 := by
  obtain ⟨c1, c2⟩ := divRoundEven_close N D hD
  have hDq := natCast_pos' D hD
  generalize divRoundEven N D = m at *
  have c1' : 2 * (N : Rat) ≤ 2 * ((m : Rat) * (D : Rat)) + (D : Rat) := by
    have := Rat.natCast_le_natCast.2 c1
    simpa [Rat.natCast_add, Rat.natCast_mul] using this
  have c2' : 2 * ((m : Rat) * (D : Rat)) ≤ 2 * (N : Rat) + (D : Rat) := by
    have := Rat.natCast_le_natCast.2 c2
    simpa [Rat.natCast_add, Rat.natCast_mul] using this
  have hx : (N : Rat) / (D : Rat) * (D : Rat) = (N : Rat) := Rat.div_mul_cancel (by grind)
  generalize (N : Rat) / (D : Rat) = X at *
  constructor
  · apply Rat.le_of_mul_le_mul_right _ hDq
    have e : 2 * X * (D : Rat) = 2 * (X * (D : Rat)) := by grind
    rw [e, hx]; grind
  · apply Rat.le_of_mul_le_mul_right _ hDq
    have e : (2 * X + 1) * (D : Rat) = 2 * (X * (D : Rat)) + (D : Rat) := by grind
    rw [e, hx]; grind

theorem round_core (N D : Nat) (hD : 0 < D) (p Q : Rat) (hp : 0 < p) (hX : (N : Rat) / (D : Rat) * p = Q)
    (hlo : p * 4503599627370496 ≤ Q) (hhi : Q < p * 9007199254740992) :
    4503599627370496 ≤ divRoundEven N D ∧ divRoundEven N D ≤ 9007199254740992 ∧
    2 * absQ ((divRoundEven N D : Rat) * p - Q) ≤ p := by
  obtain ⟨d1, d2⟩ := dre_rat N D hD
  generalize divRoundEven N D = m at *
  generalize (N : Rat) / (D : Rat) = X at *
  subst hX
  have x1 : (4503599627370496 : Rat) ≤ X := by
    apply Rat.le_of_mul_le_mul_right _ hp
    grind
  have x2 : X < 9007199254740992 := by
    apply Rat.lt_of_mul_lt_mul_right _ (Rat.le_of_lt hp)
    grind
  refine ⟨?_, ?_, ?_⟩
  · have h : (9007199254740992 : Rat) ≤ 2 * (m : Rat) + 1 := by grind
    have : 9007199254740992 ≤ 2 * m + 1 := by exact_mod_cast h
    omega
  · have h : 2 * (m : Rat) < 18014398509481985 := by grind
    have : 2 * m < 18014398509481985 := by exact_mod_cast h
    omega
  · have e : (m : Rat) * p - X * p = ((m : Rat) - X) * p := by grind
    rw [e]
    unfold absQ
    split
    · have : 2 * -(((m : Rat) - X) * p) = (2 * X - 2 * (m : Rat)) * p := by grind
      rw [this]
      have := Rat.mul_le_mul_of_nonneg_right (show 2 * X - 2 * (m : Rat) ≤ 1 by grind) (Rat.le_of_lt hp)
      grind
    · have : 2 * (((m : Rat) - X) * p) = (2 * (m : Rat) - 2 * X) * p := by grind
      rw [this]
      have := Rat.mul_le_mul_of_nonneg_right (show 2 * (m : Rat) - 2 * X ≤ 1 by grind) (Rat.le_of_lt hp)
      grind

theorem pow2_52 : pow2 52 = 4503599627370496 := by decide +kernel
theorem pow2_53 : pow2 53 = 9007199254740992 := by decide +kernel

theorem rndPosME_spec (num den : Nat) (hn : 0 < num) (hd : 0 < den) :
    4503599627370496 ≤ (rndPosME num den).1 ∧ (rndPosME num den).1 ≤ 9007199254740992 ∧
    pow2 ((rndPosME num den).2 + 52) ≤ (num : Rat) / (den : Rat) ∧
    (num : Rat) / (den : Rat) < pow2 ((rndPosME num den).2 + 53) ∧
    2 * absQ (((rndPosME num den).1 : Rat) * pow2 (rndPosME num den).2 - (num : Rat) / (den : Rat))
      ≤ pow2 (rndPosME num den).2 := by
  obtain ⟨b1, b2⟩ := binExp_spec num den hn hd
  have hdq := natCast_pos' den hd
  unfold rndPosME
  simp only
  generalize hb : binExp num den = b at *
  generalize he : b - 52 = e
  have e1 : e + 52 = b := by omega
  have e2 : e + 53 = b + 1 := by omega
  rw [e1, e2]
  have hp := pow2_pos e
  have hlo : pow2 e * 4503599627370496 ≤ (num : Rat) / (den : Rat) := by
    rw [← pow2_52, ← pow2_add, e1]; exact b1
  have hhi : (num : Rat) / (den : Rat) < pow2 e * 9007199254740992 := by
    rw [← pow2_53, ← pow2_add, e2]; exact b2
  by_cases hge : e ≥ 0
  · simp only [hge, if_true]
    have hk : (0 : Rat) < ((2 ^ e.toNat : Nat) : Rat) := natCast_pos' _ (Nat.pow_pos (by decide))
    have hpe : pow2 e = ((2 ^ e.toNat : Nat) : Rat) := by unfold pow2; simp [hge]
    have hX : ((num : Nat) : Rat) / ((den * 2 ^ e.toNat : Nat) : Rat) * pow2 e = (num : Rat) / (den : Rat) := by
      rw [hpe, Rat.natCast_mul]
      generalize ((2 ^ e.toNat : Nat) : Rat) = P at *
      grind
    have := round_core num (den * 2 ^ e.toNat) (Nat.mul_pos hd (Nat.pow_pos (by decide))) (pow2 e) _ hp hX hlo hhi
    exact ⟨this.1, this.2.1, b1, b2, this.2.2⟩
  · simp only [hge, if_false]
    have hk : (0 : Rat) < ((2 ^ (-e).toNat : Nat) : Rat) := natCast_pos' _ (Nat.pow_pos (by decide))
    have hpe : pow2 e = 1 / ((2 ^ (-e).toNat : Nat) : Rat) := by unfold pow2; simp [hge]
    have hX : ((num * 2 ^ (-e).toNat : Nat) : Rat) / (den : Rat) * pow2 e = (num : Rat) / (den : Rat) := by
      rw [hpe, Rat.natCast_mul]
      generalize ((2 ^ (-e).toNat : Nat) : Rat) = P at *
      grind
    have := round_core (num * 2 ^ (-e).toNat) den hd (pow2 e) _ hp hX hlo hhi
    exact ⟨this.1, this.2.1, b1, b2, this.2.2⟩

theorem pos_eq_natAbs_div (q : Rat) (hq : 0 < q) : q = (q.num.natAbs : Rat) / (q.den : Rat) ∧ 0 < q.num.natAbs := by
  have h := absQ_mul_den q
  have ha : absQ q = q := by unfold absQ; split <;> grind
  rw [ha] at h
  have hd : (0 : Rat) < (q.den : Rat) := natCast_pos' _ q.den_pos
  constructor
  · rw [← h, Rat.mul_div_cancel (by grind)]
  · have : (0 : Rat) < (q.num.natAbs : Rat) := by rw [← h]; exact Rat.mul_pos hq hd
    exact Rat.natCast_pos.1 this

/-- `rndPos q` (q > 0) is `m·2^e` with a 53-bit mantissa in the binade of `q`, within half a unit in
    the last place of `q`, and no multiple of `2^e` is nearer. -/
theorem rndPos_spec (q : Rat) (hq : 0 < q) :
    ∃ (m : Nat) (e : Int), rndPos q = (m : Rat) * pow2 e ∧ 4503599627370496 ≤ m ∧ m ≤ 9007199254740992 ∧
      pow2 (e + 52) ≤ q ∧ q < pow2 (e + 53) ∧ 2 * absQ (rndPos q - q) ≤ pow2 e ∧
      ∀ j : Int, absQ (rndPos q - q) ≤ absQ ((j : Rat) * pow2 e - q) := by
  obtain ⟨hq', hn⟩ := pos_eq_natAbs_div q hq
  obtain ⟨s1, s2, s3, s4, s5⟩ := rndPosME_spec q.num.natAbs q.den hn q.den_pos
  rw [← hq'] at s3 s4 s5
  refine ⟨(rndPosME q.num.natAbs q.den).1, (rndPosME q.num.natAbs q.den).2, rfl, s1, s2, s3, s4, ?_, ?_⟩
  · exact s5
  · intro j
    have hr : rndPos q = ((rndPosME q.num.natAbs q.den).1 : Rat) * pow2 (rndPosME q.num.natAbs q.den).2 := rfl
    rw [hr]
    generalize (rndPosME q.num.natAbs q.den).1 = m at *
    generalize (rndPosME q.num.natAbs q.den).2 = e at *
    have hp := pow2_pos e
    generalize pow2 e = p at *
    rcases Int.lt_trichotomy j (m : Int) with h | h | h
    · have h1 : (j : Rat) + 1 ≤ (m : Rat) := by
        have : j + 1 ≤ (m : Int) := by omega
        have := Rat.intCast_le_intCast.2 this
        simpa [Rat.intCast_add, Rat.intCast_natCast] using this
      have h2 := Rat.mul_le_mul_of_nonneg_right h1 (Rat.le_of_lt hp)
      unfold absQ at *
      split at s5 <;> split <;> split <;> grind
    · subst h
      have : ((m : Int) : Rat) = (m : Rat) := Rat.intCast_natCast m
      rw [this]; exact Rat.le_refl
    · have h1 : (m : Rat) + 1 ≤ (j : Rat) := by
        have : (m : Int) + 1 ≤ j := by omega
        have := Rat.intCast_le_intCast.2 this
        simpa [Rat.intCast_add, Rat.intCast_natCast] using this
      have h2 := Rat.mul_le_mul_of_nonneg_right h1 (Rat.le_of_lt hp)
      unfold absQ at *
      split at s5 <;> split <;> split <;> grind

theorem absQ_of_pos (q : Rat) (h : 0 < q) : absQ q = q := by unfold absQ; split <;> grind
theorem absQ_of_neg (q : Rat) (h : q < 0) : absQ q = -q := by unfold absQ; split <;> grind

theorem rndPos_pos (q : Rat) (hq : 0 < q) : 0 < rndPos q := by
  obtain ⟨m, e, h1, h2, _⟩ := rndPos_spec q hq
  rw [h1]
  exact Rat.mul_pos (natCast_pos' m (by omega)) (pow2_pos e)

/-- **`rnd53` is round-to-nearest to 53 significant bits** (unbounded exponent): for every non-zero `q`
    the result is `±m·2^e` with `2^52 ≤ m ≤ 2^53` in the binade of `q` (`2^(e+52) ≤ |q| < 2^(e+53)`), its
    error is at most half a unit in the last place, and no multiple of `2^e` is nearer to `q`. -/
theorem rnd53_nearest (q : Rat) (hq : q ≠ 0) :
    ∃ (m : Nat) (e : Int), absQ (rnd53 q) = (m : Rat) * pow2 e ∧ 4503599627370496 ≤ m ∧ m ≤ 9007199254740992 ∧
      pow2 (e + 52) ≤ absQ q ∧ absQ q < pow2 (e + 53) ∧ 2 * absQ (rnd53 q - q) ≤ pow2 e ∧
      ∀ j : Int, absQ (rnd53 q - q) ≤ absQ ((j : Rat) * pow2 e - absQ q) := by
  unfold rnd53
  simp only [hq, if_false]
  by_cases hn : q < 0
  · simp only [hn, if_true]
    have hpos : 0 < -q := by grind
    obtain ⟨m, e, h1, h2, h3, h4, h5, h6, h7⟩ := rndPos_spec (-q) hpos
    have hrp := rndPos_pos (-q) hpos
    refine ⟨m, e, ?_, h2, h3, ?_, ?_, ?_, ?_⟩
    · rw [absQ_neg, absQ_of_pos _ hrp, h1]
    · rw [absQ_of_neg q hn]; exact h4
    · rw [absQ_of_neg q hn]; exact h5
    · have : -rndPos (-q) - q = -(rndPos (-q) - -q) := by grind
      rw [this, absQ_neg]; exact h6
    · intro j
      have : -rndPos (-q) - q = -(rndPos (-q) - -q) := by grind
      rw [this, absQ_neg, absQ_of_neg q hn]; exact h7 j
  · simp only [hn, if_false]
    have hpos : 0 < q := by grind
    obtain ⟨m, e, h1, h2, h3, h4, h5, h6, h7⟩ := rndPos_spec q hpos
    have hrp := rndPos_pos q hpos
    refine ⟨m, e, ?_, h2, h3, ?_, ?_, h6, ?_⟩
    · rw [absQ_of_pos _ hrp, h1]
    · rw [absQ_of_pos q hpos]; exact h4
    · rw [absQ_of_pos q hpos]; exact h5
    · intro j; rw [absQ_of_pos q hpos]; exact h7 j

/-- relative error at most 2⁻⁵³ -/
theorem rnd53_relative (q : Rat) (hq : q ≠ 0) : absQ (rnd53 q - q) * 9007199254740992 ≤ absQ q := by
  obtain ⟨m, e, _, _, _, h4, _, h6, _⟩ := rnd53_nearest q hq
  rw [pow2_add, pow2_52] at h4
  generalize absQ (rnd53 q - q) = err at *
  generalize pow2 e = p at *
  grind

/-- ties go to the even mantissa (the scaled quotient `N/D` is what `rndPosME` rounds) -/
theorem divRoundEven_tie_even (N D : Nat) (h : 2 * (N % D) = D) : divRoundEven N D % 2 = 0 := by
  unfold divRoundEven
  simp only
  have h1 : ¬ 2 * (N % D) < D := by omega
  have h2 : ¬ D < 2 * (N % D) := by omega
  simp only [h1, h2, if_false]
  split <;> omega

/-! ### transitivity of the executed comparison, guarded -/
theorem fuzzyEqF_bucket (a b : Rat) (h : fuzzyEqF a b = true) :
    roundHA (rnd53 (a * invEps)) = roundHA (rnd53 (b * invEps)) := by
  unfold fuzzyEqF at h
  simp only [Bool.or_eq_true, Bool.and_eq_true, beq_iff_eq, decide_eq_true_eq] at h
  rcases h with h | h
  · rw [h]
  · exact h.2

/-- transitivity of the executed `fuzzy_equals` can only fail through the `|a − c| ≤ ε` conjunct:
    the bucket part is transitive -/
theorem fuzzyEqF_trans_guarded (a b c : Rat) (h1 : fuzzyEqF a b = true) (h2 : fuzzyEqF b c = true)
    (hg : absQ (rnd53 (a - c)) ≤ epsF) : fuzzyEqF a c = true := by
  have hb := (fuzzyEqF_bucket a b h1).trans (fuzzyEqF_bucket b c h2)
  unfold fuzzyEqF
  simp only [Bool.or_eq_true, Bool.and_eq_true, beq_iff_eq, decide_eq_true_eq]
  exact Or.inr ⟨hg, hb⟩

end Grass.Num
