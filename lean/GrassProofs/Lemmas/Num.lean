import Grass.Num
/-
  Helper lemmas for C07 (GrassProofs/C07.lean): rounding helpers on `Rat`, list/digit lemmas for the
  printing model.  No property theorem lives here.
-/
namespace Grass.Num

theorem absQ_neg (q : Rat) : absQ (-q) = absQ q := by
  unfold absQ; split <;> split <;> grind

theorem absQ_nonneg (q : Rat) : 0 ≤ absQ q := by
  unfold absQ; split <;> grind

theorem rnd53_neg (q : Rat) : rnd53 (-q) = - rnd53 q := by
  unfold rnd53
  by_cases h0 : q = 0
  · subst h0; simp
  · have : -q ≠ 0 := by grind
    simp only [h0, this, if_false]
    by_cases hn : q < 0
    · have : ¬ (-q < 0) := by grind
      simp [hn, this]
    · have : -q < 0 := by grind
      simp [hn, this]

theorem fuzzyEqF_refl (a : Rat) : fuzzyEqF a a = true := by
  simp [fuzzyEqF]

theorem fuzzyEqF_symm (a b : Rat) : fuzzyEqF a b = fuzzyEqF b a := by
  unfold fuzzyEqF
  have h1 : a - b = -(b - a) := by grind
  rw [h1, rnd53_neg, absQ_neg]
  have h2 : (a == b) = (b == a) := BEq.comm
  rw [h2]
  congr 2
  exact BEq.comm

theorem roundHA_nonneg_spec (q : Rat) (h : 0 ≤ q) :
    ((roundHA q : Int) : Rat) ≤ q + 1/2 ∧ q + 1/2 < ((roundHA q : Int) : Rat) + 1 := by
  unfold roundHA
  have : ¬ q < 0 := by grind
  simp only [this, if_false]
  have h1 := Rat.floor_le (q + 1/2)
  have h2 := Rat.lt_floor_add_one (q + 1/2)
  simp only [Rat.intCast_add] at h2
  constructor
  · exact h1
  · simpa using h2

theorem roundHA_neg_spec (q : Rat) (h : q < 0) :
    -q + 1/2 < (-(roundHA q : Int) : Rat) + 1 ∧ (-(roundHA q : Int) : Rat) ≤ -q + 1/2 := by
  unfold roundHA
  simp only [h, if_true]
  have h1 := Rat.floor_le (-q + 1/2)
  have h2 := Rat.lt_floor_add_one (-q + 1/2)
  simp only [Rat.intCast_add] at h2
  simp only [Rat.intCast_neg]
  constructor
  · simpa using h2
  · simpa using h1

theorem roundHA_close (A B : Rat) (h : roundHA A = roundHA B) : A - B < 1 := by
  by_cases hA : A < 0 <;> by_cases hB : B < 0
  · have := roundHA_neg_spec A hA; have := roundHA_neg_spec B hB; rw [h] at *; grind
  · have := roundHA_neg_spec A hA; grind
  · have := roundHA_nonneg_spec A (by grind); have := roundHA_neg_spec B hB; rw [h] at *; grind
  · have := roundHA_nonneg_spec A (by grind); have := roundHA_nonneg_spec B (by grind); rw [h] at *; grind

theorem bucket_close (a b : Rat) (h : bucket a = bucket b) : absQ (a - b) ≤ 1 / invEps := by
  unfold bucket at h
  have h1 := roundHA_close _ _ h
  have h2 := roundHA_close _ _ h.symm
  unfold absQ invEps at *
  split <;> grind

theorem fuzzyEqX_eq_bucket (a b : Rat) : fuzzyEqX a b = (bucket a == bucket b) := by
  unfold fuzzyEqX
  by_cases hab : a = b
  · subst hab; simp
  · by_cases hb : bucket a = bucket b
    · have := bucket_close a b hb
      simp only [bucket] at hb
      simp [this, hb, bucket]
    · simp only [bucket] at hb
      have e1 : (a == b) = false := by simp [hab]
      have e2 : (roundHA (a * invEps) == roundHA (b * invEps)) = false := by simp [hb]
      simp only [bucket, e1, e2]; simp

theorem fuzzyEqX_equivalence : Equivalence (fun a b : Rat => fuzzyEqX a b = true) where
  refl a := by simp [fuzzyEqX_eq_bucket]
  symm {a b} h := by simp [fuzzyEqX_eq_bucket] at *; exact h.symm
  trans {a b c} h1 h2 := by simp [fuzzyEqX_eq_bucket] at *; exact h1.trans h2


theorem int_eq_of_rat_close (a b : Int) (h1 : (a : Rat) < (b : Rat) + 1) (h2 : (b : Rat) < (a : Rat) + 1) : a = b := by
  have h1' : (a : Rat) < ((b + 1 : Int) : Rat) := by simpa [Rat.intCast_add] using h1
  have h2' : (b : Rat) < ((a + 1 : Int) : Rat) := by simpa [Rat.intCast_add] using h2
  rw [Rat.intCast_lt_intCast] at h1' h2'
  omega

theorem roundHA_eq_of_close (q : Rat) (k : Int) (h : 2 * absQ (q - k) < 1) : roundHA q = k := by
  apply int_eq_of_rat_close
  all_goals
    unfold absQ at h
    by_cases hq : q < 0
    · have := roundHA_neg_spec q hq
      split at h <;> grind
    · have := roundHA_nonneg_spec q (by grind)
      split at h <;> grind

theorem roundHA_intCast (k : Int) : roundHA (k : Rat) = k := by
  apply roundHA_eq_of_close
  have : (k : Rat) - (k : Rat) = 0 := by grind
  rw [this]; simp only [absQ]; grind

theorem roundHA_dist (q : Rat) : 2 * absQ (q - (roundHA q : Int)) ≤ 1 := by
  unfold absQ
  by_cases hq : q < 0
  · have := roundHA_neg_spec q hq
    split <;> grind
  · have := roundHA_nonneg_spec q (by grind)
    split <;> grind

theorem fuzzyAsIntX_sound (x : Rat) (n : Int) (h : fuzzyAsInt fuzzyEqX x = some n) :
    n = roundHA x ∧ 2 * absQ (x - n) * invEps ≤ 1 := by
  unfold fuzzyAsInt at h
  simp only at h
  split at h
  · rename_i he
    injection h with h
    subst h
    refine ⟨rfl, ?_⟩
    rw [fuzzyEqX_eq_bucket] at he
    simp only [bucket, beq_iff_eq] at he
    have e : ((roundHA x : Int) : Rat) * invEps = ((roundHA x * 100000000000 : Int) : Rat) := by
      simp [invEps, Rat.intCast_mul]
    rw [e, roundHA_intCast] at he
    have d := roundHA_dist (x * invEps)
    rw [he] at d
    simp only [Rat.intCast_mul] at d
    unfold absQ invEps at *
    split at d <;> split <;> grind
  · cases h

theorem fuzzyAsIntX_complete (x : Rat) (n : Int) (h : 2 * absQ (x - n) * invEps < 1) :
    fuzzyAsInt fuzzyEqX x = some n := by
  have hr : roundHA x = n := by
    apply roundHA_eq_of_close
    unfold absQ invEps at *
    split at h <;> split <;> grind
  unfold fuzzyAsInt
  simp only [hr]
  have hb : fuzzyEqX x (n : Rat) = true := by
    rw [fuzzyEqX_eq_bucket]
    simp only [bucket, beq_iff_eq]
    have e : (n : Rat) * invEps = ((n * 100000000000 : Int) : Rat) := by
      simp [invEps, Rat.intCast_mul]
    rw [e, roundHA_intCast]
    apply roundHA_eq_of_close
    simp only [Rat.intCast_mul]
    unfold absQ invEps at *
    split at h <;> split <;> grind
  simp [hb]

/-- generic trichotomy -/
theorem fuzzy_trichotomy (eq : Rat → Rat → Bool) (hr : ∀ a, eq a a = true) (hs : ∀ a b, eq a b = eq b a)
    (a b : Rat) :
    (fuzzyLt eq a b = true ∧ eq a b = false ∧ fuzzyLt eq b a = false) ∨
    (fuzzyLt eq a b = false ∧ eq a b = true ∧ fuzzyLt eq b a = false) ∨
    (fuzzyLt eq a b = false ∧ eq a b = false ∧ fuzzyLt eq b a = true) := by
  unfold fuzzyLt
  have hs' := hs a b
  cases he : eq a b
  · rw [he] at hs'
    have hne : a ≠ b := by intro h; subst h; rw [hr] at he; cases he
    rw [← hs']
    by_cases hl : a < b
    · have : ¬ b < a := by grind
      simp [hl, this]
    · have : b < a := by grind
      simp [hl, this]
  · rw [he] at hs'; simp [← hs']


theorem truncQ_spec (t : Rat) : (truncQ t : Rat) - 1 < t ∧ t < (truncQ t : Rat) + 1 := by
  unfold truncQ
  by_cases h : t < 0
  · simp only [h, if_true]
    have h1 := Rat.floor_le (-t)
    have h2 := Rat.lt_floor_add_one (-t)
    simp only [Rat.intCast_add, Rat.intCast_neg] at *
    constructor <;> grind
  · simp only [h, if_false]
    have h1 := Rat.floor_le t
    have h2 := Rat.lt_floor_add_one t
    simp only [Rat.intCast_add] at *
    constructor <;> grind

theorem fmodQ_eq (a b : Rat) (hb : b ≠ 0) : fmodQ a b = b * (a / b - (truncQ (a / b) : Rat)) := by
  unfold fmodQ
  have : b * (a / b) = a := by rw [Rat.mul_comm]; exact Rat.div_mul_cancel hb
  grind

theorem fmodQ_abs_lt (a b : Rat) (hb : b ≠ 0) : absQ (fmodQ a b) < absQ b := by
  rw [fmodQ_eq a b hb]
  have ⟨h1, h2⟩ := truncQ_spec (a / b)
  have hd1 : -1 < a / b - (truncQ (a / b) : Rat) := by grind
  have hd2 : a / b - (truncQ (a / b) : Rat) < 1 := by grind
  generalize (a / b - (truncQ (a / b) : Rat)) = d at *
  by_cases hpos : 0 < b
  · have e1 := Rat.mul_lt_mul_of_pos_left hd1 hpos
    have e2 := Rat.mul_lt_mul_of_pos_left hd2 hpos
    unfold absQ; split <;> split <;> grind
  · have hneg : 0 < -b := by grind
    have e1 := Rat.mul_lt_mul_of_pos_left hd1 hneg
    have e2 := Rat.mul_lt_mul_of_pos_left hd2 hneg
    unfold absQ; split <;> split <;> grind

theorem remEuclidX_bounds (a b : Rat) (hb : b ≠ 0) : 0 ≤ remEuclidX a b ∧ remEuclidX a b < absQ b := by
  have h := fmodQ_abs_lt a b hb
  unfold remEuclidX
  simp only
  unfold absQ at *
  split <;> split at h <;> split at h <;> grind

theorem remEuclidX_congr (a b : Rat) : ∃ k : Int, a = remEuclidX a b + (k : Rat) * b := by
  unfold remEuclidX fmodQ absQ
  simp only
  split
  · split
    · refine ⟨truncQ (a / b) + 1, ?_⟩; simp only [Rat.intCast_add]; grind
    · refine ⟨truncQ (a / b) - 1, ?_⟩; simp only [Rat.intCast_sub]; grind
  · refine ⟨truncQ (a / b), ?_⟩; grind

/-- Sass `%`, exact arithmetic: the result has the sign of the divisor (or is zero), is smaller
    in magnitude than the divisor, and differs from `a` by an integer multiple of `b`. -/
theorem modulo_sign (a b r : Rat) (hb : b ≠ 0) (h : moduloX a b = some r) :
    (0 < b → 0 ≤ r) ∧ (b < 0 → r ≤ 0) ∧ absQ r < absQ b ∧ ∃ k : Int, a = r + (k : Rat) * b := by
  have hb1 := remEuclidX_bounds a b hb
  obtain ⟨k, hk⟩ := remEuclidX_congr a b
  unfold moduloX at h
  split at h
  · injection h with h; subst h
    refine ⟨fun _ => hb1.1, fun _ => by grind, ?_, k, hk⟩
    unfold absQ at *; split <;> grind
  · simp only [hb] at h
    split at h
    · injection h with h; subst h
      rename_i h0
      refine ⟨fun _ => by grind, fun _ => by grind, ?_, k, by rw [h0] at hk; grind⟩
      unfold absQ; split <;> grind
    · injection h with h; subst h
      refine ⟨fun _ => by grind, fun _ => ?_, ?_, k - 1, ?_⟩
      · unfold absQ at hb1; split at hb1 <;> grind
      · unfold absQ at *; split at hb1 <;> split <;> grind
      · simp only [Rat.intCast_sub]; grind

theorem modulo_zero (a : Rat) : moduloX a 0 = none := by
  simp [moduloX]

theorem digitChar_props : ∀ d, d < 10 → (isDigit (digitChar d) = true ∧ (digitChar d).toNat - 48 = d ∧
    digitChar d ≠ '.' ∧ digitChar d ≠ '-' ∧ digitChar d ≠ '+' ∧ (digitChar d = '0' ↔ d = 0)) := by decide

/-! ### trimEnd / trimStart -/
theorem trimEnd_nil (c : Char) : trimEnd c [] = [] := rfl

theorem trimEnd_cons (c x : Char) (xs : List Char) :
    trimEnd c (x :: xs) = if trimEnd c xs = [] then (if x == c then [] else [x]) else x :: trimEnd c xs := by
  unfold trimEnd
  simp only [List.reverse_cons, List.dropWhile_append]
  cases h : List.dropWhile (fun x => x == c) xs.reverse with
  | nil => simp [List.dropWhile]; split <;> simp_all
  | cons y ys => simp

theorem trimEnd_eq_self (c : Char) (l : List Char) (h : ∀ x ∈ l, x ≠ c) : trimEnd c l = l := by
  induction l with
  | nil => rfl
  | cons x xs ih =>
    have hx : x ≠ c := h x (by simp)
    have := ih (fun y hy => h y (by simp [hy]))
    rw [trimEnd_cons, this]
    cases xs with
    | nil => simp [hx]
    | cons y ys => simp

theorem trimEnd_append_barrier (c d : Char) (A B : List Char) (hd : d ≠ c) :
    trimEnd c (A ++ d :: B) = A ++ d :: trimEnd c B := by
  induction A with
  | nil =>
    simp only [List.nil_append]
    rw [trimEnd_cons]
    split <;> simp_all
  | cons a A ih =>
    simp only [List.cons_append]
    rw [trimEnd_cons, ih]
    simp

theorem trimEnd_append_all (c : Char) (A B : List Char) (hB : trimEnd c B = []) :
    trimEnd c (A ++ B) = trimEnd c A := by
  induction A with
  | nil => simp [hB, trimEnd_nil]
  | cons a A ih =>
    simp only [List.cons_append]
    rw [trimEnd_cons, trimEnd_cons, ih]

/-- what `trimEnd '0'` leaves: the list is the result followed by zeros, and the result does not end in '0' -/
theorem trimEnd_decomp (c : Char) (l : List Char) :
    ∃ z, l = trimEnd c l ++ List.replicate z c ∧ (trimEnd c l).getLast? ≠ some c := by
  induction l with
  | nil => exact ⟨0, by simp [trimEnd_nil], by simp [trimEnd_nil]⟩
  | cons x xs ih =>
    obtain ⟨z, hz, hl⟩ := ih
    rw [trimEnd_cons]
    by_cases he : trimEnd c xs = []
    · simp only [he, if_true]
      rw [he] at hz
      by_cases hx : (x == c) = true
      · refine ⟨z + 1, ?_, by simp [hx]⟩
        have : x = c := by simpa using hx
        subst this
        simp only [hx, if_true, List.nil_append] at *
        rw [hz]; simp [List.replicate_succ]
      · refine ⟨z, ?_, ?_⟩
        · simp only [hx]; simp at hz; rw [hz]; simp
        · simp only [hx]
          have : x ≠ c := by simpa using hx
          simp [this]
    · simp only [he, if_false]
      refine ⟨z, ?_, ?_⟩
      · conv => lhs; rw [hz]
        simp
      · rw [List.getLast?_cons_of_ne_nil he]; exact hl

/-! ### digits -/
theorem valDigits_nil : valDigits [] = 0 := rfl

theorem valDigits_append_single (ds : List Char) (c : Char) :
    valDigits (ds ++ [c]) = 10 * valDigits ds + (c.toNat - 48) := by
  simp [valDigits, List.foldl_append]

theorem foldl_digits_acc (ds : List Char) (a : Nat) :
    ds.foldl (fun a c => 10 * a + (c.toNat - 48)) a = a * 10 ^ ds.length + ds.foldl (fun a c => 10 * a + (c.toNat - 48)) 0 := by
  induction ds generalizing a with
  | nil => simp
  | cons d ds ih =>
    simp only [List.foldl_cons, List.length_cons]
    rw [ih, ih (10 * 0 + (d.toNat - 48))]
    simp only [Nat.pow_succ]
    rw [Nat.add_mul, Nat.add_mul]
    simp only [Nat.mul_zero, Nat.zero_mul, Nat.zero_add]
    rw [Nat.add_assoc]
    congr 1
    ac_rfl

theorem valDigits_append (A B : List Char) :
    valDigits (A ++ B) = valDigits A * 10 ^ B.length + valDigits B := by
  unfold valDigits
  rw [List.foldl_append, foldl_digits_acc]

theorem natDigits_spec (n : Nat) :
    valDigits (natDigits n) = n ∧ (∀ c ∈ natDigits n, isDigit c = true) ∧ natDigits n ≠ [] ∧
    ((natDigits n).head? = some '0' ↔ n = 0) := by
  fun_induction natDigits n with
  | case1 n h =>
    have := digitChar_props n h
    refine ⟨by simp [valDigits, this.2.1], by simp [this.1], by simp, ?_⟩
    simp [this.2.2.2.2.2]
  | case2 n h ih =>
    have hd := digitChar_props (n % 10) (Nat.mod_lt _ (by decide))
    obtain ⟨i1, i2, i3, i4⟩ := ih
    refine ⟨?_, ?_, by simp, ?_⟩
    · rw [valDigits_append_single, i1, hd.2.1]; omega
    · intro c hc
      simp only [List.mem_append, List.mem_singleton] at hc
      rcases hc with hc | hc
      · exact i2 c hc
      · rw [hc]; exact hd.1
    · cases hh : natDigits (n / 10) with
      | nil => exact absurd hh i3
      | cons y ys =>
        rw [hh] at i4
        simp only [List.cons_append, List.head?_cons] at *
        constructor
        · intro h0; have := i4.1 h0; omega
        · intro h0; omega

theorem fracDigits_spec (k n : Nat) :
    valDigits (fracDigits k n) = n % 10 ^ k ∧ (∀ c ∈ fracDigits k n, isDigit c = true) ∧
    (fracDigits k n).length = k := by
  induction k generalizing n with
  | zero => simp [fracDigits, valDigits, Nat.mod_one]
  | succ k ih =>
    have hd := digitChar_props (n % 10) (Nat.mod_lt _ (by decide))
    obtain ⟨i1, i2, i3⟩ := ih (n / 10)
    refine ⟨?_, ?_, by simp [fracDigits, i3]⟩
    · simp only [fracDigits]
      rw [valDigits_append_single, i1, hd.2.1, Nat.pow_succ, Nat.mul_comm (10 ^ k) 10, Nat.mod_mul]
      omega
    · intro c hc
      simp only [fracDigits, List.mem_append, List.mem_singleton] at hc
      rcases hc with hc | hc
      · exact i2 c hc
      · rw [hc]; exact hd.1

theorem valDigits_replicate_zero (z : Nat) : valDigits (List.replicate z '0') = 0 := by
  induction z with
  | zero => rfl
  | succ z ih =>
    rw [List.replicate_succ']
    rw [valDigits_append_single, ih]; decide


end Grass.Num
