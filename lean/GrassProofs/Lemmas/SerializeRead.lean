import GrassProofs.Lemmas.SerializeTree
/-
  Helper lemmas for C06_style_equiv_model_partial: on declaration-only trees (`SRule`, leaves are
  `word`s) the serializer's text, with whitespace dropped, is the flatText text `flatText st t`
  (`dropWs_serialize`), and the reader `readCss` (Grass/Serialize.lean) returns the rule list from it
  (`readCss_of_flat`); hence `readCss_serialize`: print → read round trip in both styles.
-/
namespace Grass.Serialize
set_option linter.unusedSimpArgs false
set_option linter.unusedVariables false

/-! splitting lemmas -/

theorem splitOnC_ne_nil (c : Char) (s : Str) : splitOnC c s ≠ [] := by
  induction s with
  | nil => simp [splitOnC]
  | cons x xs ih =>
    simp only [splitOnC]
    cases h : splitOnC c xs with
    | nil => simp
    | cons l ls => by_cases hx : x = c <;> simp [hx]

theorem splitOnC_notin (c : Char) (s : Str) (h : c ∉ s) : splitOnC c s = [s] := by
  induction s with
  | nil => simp [splitOnC]
  | cons x xs ih =>
    simp only [List.mem_cons, not_or] at h
    simp only [splitOnC, ih h.2]
    have : x ≠ c := fun e => h.1 e.symm
    simp [this]

theorem splitOnC_append (c : Char) (a b : Str) (h : c ∉ a) :
    splitOnC c (a ++ c :: b) = a :: splitOnC c b := by
  induction a with
  | nil =>
    simp only [List.nil_append, splitOnC]
    cases hb : splitOnC c b with
    | nil => exact absurd hb (splitOnC_ne_nil c b)
    | cons l ls => simp
  | cons x xs ih =>
    simp only [List.mem_cons, not_or] at h
    simp only [List.cons_append, splitOnC, ih h.2]
    have : x ≠ c := fun e => h.1 e.symm
    simp [this]

/-! flatText forms -/

def declFlat (d : Str × Str) : Str := d.1 ++ ':' :: d.2

def declsFlat (st : Style) : List (Str × Str) → Str
  | [] => []
  | [d] => declFlat d ++ (if st.isCompressed then [] else [';'])
  | d :: e :: r => declFlat d ++ ';' :: declsFlat st (e :: r)

def ruleFlat (st : Style) (r : SRule) : Str := r.sel ++ '{' :: (declsFlat st r.decls ++ ['}'])

def flatText (st : Style) (t : List SRule) : Str :=
  ((t.filter (fun r => !r.decls.isEmpty)).map (ruleFlat st)).flatten

def declOk (d : Str × Str) : Bool := word d.1 && word d.2

theorem word_notin (x : Str) (h : word x = true) (c : Char)
    (hc : c = ' ' ∨ c = '\n' ∨ c = '{' ∨ c = '}' ∨ c = ';' ∨ c = ':') : c ∉ x := by
  simp only [word, Bool.and_eq_true, List.all_eq_true] at h
  intro hm
  have := h.2 c hm
  rcases hc with e | e | e | e | e | e <;> subst e <;> simp at this

theorem word_ne_nil (x : Str) (h : word x = true) : x ≠ [] := by
  intro e; subst e; simp [word] at h

theorem declFlat_notin (d : Str × Str) (h : declOk d = true) (c : Char)
    (hc : c = ' ' ∨ c = '\n' ∨ c = '{' ∨ c = '}' ∨ c = ';') : c ∉ declFlat d := by
  simp only [declOk, Bool.and_eq_true] at h
  have h1 := word_notin d.1 h.1 c (by rcases hc with e | e | e | e | e <;> simp [e])
  have h2 := word_notin d.2 h.2 c (by rcases hc with e | e | e | e | e <;> simp [e])
  have h3 : c ≠ ':' := by rcases hc with e | e | e | e | e <;> subst e <;> decide
  simp [declFlat, h1, h2, h3]

theorem declFlat_ne_nil (d : Str × Str) : declFlat d ≠ [] := by simp [declFlat]

theorem readDecl_declFlat (d : Str × Str) (h : declOk d = true) : readDecl (declFlat d) = some d := by
  simp only [declOk, Bool.and_eq_true] at h
  have h1 := word_notin d.1 h.1 ':' (by simp)
  have h2 := word_notin d.2 h.2 ':' (by simp)
  simp [readDecl, declFlat, splitOnC_append ':' d.1 d.2 h1, splitOnC_notin ':' d.2 h2]

theorem declsFlat_notin (st : Style) (ds : List (Str × Str)) (h : ds.all declOk = true) (c : Char)
    (hc : c = ' ' ∨ c = '\n' ∨ c = '{' ∨ c = '}') : c ∉ declsFlat st ds := by
  have hsemi : c ≠ ';' := by rcases hc with e | e | e | e <;> subst e <;> decide
  induction ds with
  | nil => simp [declsFlat]
  | cons d r ih =>
    simp only [List.all_cons, Bool.and_eq_true] at h
    have hd := declFlat_notin d h.1 c (by rcases hc with e | e | e | e <;> simp [e])
    cases r with
    | nil =>
      simp only [declsFlat]
      cases st <;> simp [Style.isCompressed, hd, hsemi]
    | cons e r' =>
      simp only [declsFlat]
      have := ih h.2
      simp [hd, hsemi, this]

theorem split_declsFlat (st : Style) (ds : List (Str × Str)) (h : ds.all declOk = true) :
    (splitOnC ';' (declsFlat st ds)).filter (fun d => !d.isEmpty) = ds.map declFlat := by
  induction ds with
  | nil => simp [declsFlat, splitOnC]
  | cons d r ih =>
    simp only [List.all_cons, Bool.and_eq_true] at h
    have hd := declFlat_notin d h.1 ';' (by simp)
    have hne := declFlat_ne_nil d
    cases r with
    | nil =>
      cases st
      · simp only [declsFlat, Style.isCompressed, Bool.false_eq_true, if_false]
        rw [splitOnC_append ';' _ [] hd]
        simp [splitOnC, hne]
      · simp only [declsFlat, Style.isCompressed, if_true, List.append_nil]
        rw [splitOnC_notin ';' _ hd]
        simp [hne]
    | cons e r' =>
      simp only [declsFlat]
      rw [splitOnC_append ';' _ _ hd]
      simp only [List.filter_cons, List.map_cons]
      have := ih h.2
      simp [hne, this]

theorem mapM_readDecl (ds : List (Str × Str)) (h : ds.all declOk = true) :
    (ds.map declFlat).mapM readDecl = some ds := by
  induction ds with
  | nil => simp
  | cons d r ih =>
    simp only [List.all_cons, Bool.and_eq_true] at h
    simp [List.mapM_cons, readDecl_declFlat d h.1, ih h.2]

theorem readRule_flat (st : Style) (r : SRule) (h : r.ok = true) :
    readRule (r.sel ++ '{' :: declsFlat st r.decls) = some (r.sel, r.decls) := by
  simp only [SRule.ok, Bool.and_eq_true] at h
  have hd : r.decls.all declOk = true := h.2
  have h1 := word_notin r.sel h.1 '{' (by simp)
  have h2 := declsFlat_notin st r.decls hd '{' (by simp)
  simp [readRule, splitOnC_append '{' _ _ h1, splitOnC_notin '{' _ h2, split_declsFlat st r.decls hd,
    mapM_readDecl r.decls hd]

def ruleHead (st : Style) (r : SRule) : Str := r.sel ++ '{' :: declsFlat st r.decls

theorem ruleFlat_eq (st : Style) (r : SRule) : ruleFlat st r = ruleHead st r ++ ['}'] := by
  simp [ruleFlat, ruleHead]

theorem ruleHead_notin (st : Style) (r : SRule) (h : r.ok = true) : '}' ∉ ruleHead st r := by
  simp only [SRule.ok, Bool.and_eq_true] at h
  have h1 := word_notin r.sel h.1 '}' (by simp)
  have h2 := declsFlat_notin st r.decls h.2 '}' (by simp)
  simp [ruleHead, h1, h2]

theorem split_flat (st : Style) (t : List SRule) (h : t.all SRule.ok = true) :
    splitOnC '}' (flatText st t) = (t.filter (fun r => !r.decls.isEmpty)).map (ruleHead st) ++ [[]] := by
  induction t with
  | nil => simp [flatText, splitOnC]
  | cons r rs ih =>
    simp only [List.all_cons, Bool.and_eq_true] at h
    have ih' := ih h.2
    by_cases hv : r.decls.isEmpty = true
    · simpa [flatText, List.filter_cons, hv] using ih'
    · have : flatText st (r :: rs) = ruleHead st r ++ '}' :: flatText st rs := by
        simp [flatText, List.filter_cons, hv, ruleFlat_eq]
      rw [this, splitOnC_append '}' _ _ (ruleHead_notin st r h.1), ih']
      simp [List.filter_cons, hv]

theorem mapM_readRule (st : Style) (l : List SRule) (h : l.all SRule.ok = true) :
    (l.map (ruleHead st)).mapM readRule = some (l.map (fun r => (r.sel, r.decls))) := by
  induction l with
  | nil => simp
  | cons r rs ih =>
    simp only [List.all_cons, Bool.and_eq_true] at h
    simp [List.mapM_cons, ruleHead, readRule_flat st r h.1, ih h.2]

theorem readCss_of_flat (st : Style) (t : List SRule) (h : t.all SRule.ok = true) (s : Str)
    (hs : dropWs s = flatText st t) : readCss s = some (rulesOf t) := by
  have hf : (t.filter (fun r => !r.decls.isEmpty)).all SRule.ok = true := all_filter _ _ _ h
  simp only [readCss, hs, split_flat st t h]
  simp [List.getLast?_append, List.dropLast_concat, mapM_readRule st _ hf, rulesOf]

/-! the serializer on the subset -/

theorem dropWs_append (a b : Str) : dropWs (a ++ b) = dropWs a ++ dropWs b := by simp [dropWs]

theorem dropWs_word (x : Str) (h : word x = true) : dropWs x = x := by
  simp only [dropWs, List.filter_eq_self]
  intro c hc
  have h1 := word_notin x h ' ' (by simp)
  have h2 := word_notin x h '\n' (by simp)
  have : c ≠ ' ' := fun e => h1 (e ▸ hc)
  have : c ≠ '\n' := fun e => h2 (e ▸ hc)
  simp [isWs, *]

theorem dropWs_spaces (n : Nat) : dropWs (spaces n) = [] := by
  simp [dropWs, spaces, isWs]

theorem dropWs_indentOut (st : Style) (n : Nat) : dropWs (indentOut st n) = [] := by
  unfold indentOut; split
  · rfl
  · exact dropWs_spaces n

theorem dropWs_optNl (st : Style) : dropWs (optNl st) = [] := by
  cases st <;> simp [optNl, Style.isCompressed, dropWs, isWs]

theorem dropWs_openBlock (st : Style) : dropWs (openBlock st) = ['{'] := by
  cases st <;> decide

theorem dropWs_closeBlock (st : Style) (n : Nat) : dropWs (closeBlock st n) = ['}'] := by
  simp [closeBlock, dropWs_append, dropWs_indentOut]; simp [dropWs, isWs]

theorem unquotedLoop_word (x : Str) (h1 : ' ' ∉ x) (h2 : '\n' ∉ x) : unquotedLoop false x = x := by
  induction x with
  | nil => simp [unquotedLoop]
  | cons c cs ih =>
    simp only [List.mem_cons, not_or] at h1 h2
    have a : c ≠ ' ' := fun e => h1.1 e.symm
    have b : c ≠ '\n' := fun e => h2.1 e.symm
    simp [unquotedLoop, a, b, ih h1.2 h2.2]

theorem unquotedOut_word (x : Str) (h : word x = true) : unquotedOut x = x :=
  unquotedLoop_word x (word_notin x h ' ' (by simp)) (word_notin x h '\n' (by simp))

theorem declStmt_visible (d : Str × Str) (h : declOk d = true) : (declStmt d).isInvisible = false := by
  simp only [declOk, Bool.and_eq_true] at h
  have := word_ne_nil d.2 h.2
  simp [declStmt, Stmt.isInvisible, Value.isBlank, Atom.isBlank, this]

theorem visit_declStmt (st : Style) (ind : Nat) (d : Str × Str) (h : declOk d = true) :
    (visitStmt st ind (declStmt d)).1 = true ∧ dropWs (visitStmt st ind (declStmt d)).2 = declFlat d := by
  have hv := declStmt_visible d h
  simp only [declOk, Bool.and_eq_true] at h
  have hb : Value.isBlank (.atom (.raw d.2)) = false := by
    simpa [declStmt, Stmt.isInvisible] using hv
  simp only [declStmt]
  rw [visitStmt]
  simp only [hb, Bool.false_eq_true, if_false, true_and]
  simp only [dropWs_append, dropWs_indentOut, Value.out, Atom.out, unquotedOut_word d.2 h.2,
    dropWs_word d.1 h.1, dropWs_word d.2 h.2, declFlat]
  cases st <;> simp [Style.isCompressed, dropWs, isWs]

theorem declStmt_semi (d : Str × Str) : (declStmt d).requiresSemicolon = true := rfl

theorem children_decls (st : Style) (ind : Nat) (ds : List (Str × Str)) (h : ds.all declOk = true) :
    dropWs (childrenLoop st ind (Stmts.ofList (ds.map declStmt))) = declsFlat st ds := by
  induction ds with
  | nil => simp [Stmts.ofList, childrenLoop, declsFlat, dropWs]
  | cons d r ih =>
    simp only [List.all_cons, Bool.and_eq_true] at h
    obtain ⟨hw, hout⟩ := visit_declStmt st ind d h.1
    have ih' := ih h.2
    cases r with
    | nil =>
      simp only [List.map_cons, List.map_nil, Stmts.ofList]
      unfold childrenLoop
      simp only [hw, if_true, dropWs_append, hout, dropWs_optNl, childSemi, declStmt_semi]
      unfold childrenLoop
      cases st <;> simp [Style.isCompressed, declsFlat, dropWs, isWs]
    | cons e r' =>
      simp only [List.map_cons, Stmts.ofList] at ih' ⊢
      conv => lhs; unfold childrenLoop
      simp only [hw, if_true, dropWs_append, hout, dropWs_optNl, childSemi, declStmt_semi, ih']
      simp [declsFlat, dropWs, isWs]

theorem selectorOut_single (st : Style) (sel : Str) (h : sel ≠ []) :
    selectorOut st [⟨false, [.compound [.text sel]]⟩] = sel := by
  have : (sel.isEmpty) = false := by cases sel <;> simp_all
  simp [selectorOut, Complex.isInvisible, Component.isInvisible, compoundInvisible, Simple.isInvisible,
    selectorLoop, complexOut, Component.out, compoundOut, Simple.out, this]

theorem allInvisible_decls (ds : List (Str × Str)) (h : ds.all declOk = true) :
    (Stmts.ofList (ds.map declStmt)).allInvisible = ds.isEmpty := by
  cases ds with
  | nil => simp [Stmts.ofList, Stmts.allInvisible]
  | cons d r =>
    simp only [List.all_cons, Bool.and_eq_true] at h
    simp [Stmts.ofList, Stmts.allInvisible, declStmt_visible d h.1]

theorem toStmt_invisible (r : SRule) (h : r.ok = true) : r.toStmt.isInvisible = r.decls.isEmpty := by
  simp only [SRule.ok, Bool.and_eq_true] at h
  simp [SRule.toStmt, Stmt.isInvisible, selectorInvisible, Complex.isInvisible, Component.isInvisible,
    compoundInvisible, Simple.isInvisible, allInvisible_decls r.decls h.2]

theorem visit_toStmt (st : Style) (r : SRule) (h : r.ok = true) (hv : r.decls.isEmpty = false) :
    dropWs (visitStmt st 0 r.toStmt).2 = ruleFlat st r := by
  have hi := toStmt_invisible r h
  rw [hv] at hi
  simp only [SRule.ok, Bool.and_eq_true] at h
  simp only [SRule.toStmt] at hi ⊢
  rw [visitStmt]
  simp only [hi, Bool.false_eq_true, if_false]
  simp only [blockOut, dropWs_append, dropWs_indentOut, selectorOut_single st r.sel (word_ne_nil _ h.1),
    dropWs_word r.sel h.1, dropWs_openBlock, dropWs_closeBlock, children_decls st 2 r.decls h.2]
  simp [ruleFlat]

theorem toStmt_flags (r : SRule) : r.toStmt.requiresSemicolon = false := rfl

theorem topLoop_subset (st : Style) (t : List SRule) (h : t.all SRule.ok = true) (T : Top)
    (hT : T.prevSemi = false) :
    (topLoop st T (t.map SRule.toStmt)).prevSemi = false ∧
    dropWs (topLoop st T (t.map SRule.toStmt)).buf = dropWs T.buf ++ flatText st t := by
  induction t generalizing T with
  | nil => simp [topLoop, hT, flatText]
  | cons r rs ih =>
    simp only [List.all_cons, Bool.and_eq_true] at h
    simp only [List.map_cons, topLoop, toStmt_invisible r h.1]
    by_cases hv : r.decls.isEmpty = true
    · simp only [hv, if_true]
      have := ih h.2 T hT
      simpa [flatText, List.filter_cons, hv] using this
    · have hv' : r.decls.isEmpty = false := by simpa using hv
      simp only [hv', Bool.false_eq_true, if_false]
      have hg : (visitGroup st T r.toStmt).prevSemi = false := by simp [visitGroup, toStmt_flags]
      have hb : dropWs (visitGroup st T r.toStmt).buf = dropWs T.buf ++ ruleFlat st r := by
        simp only [visitGroup, hT, Bool.false_eq_true, if_false, dropWs_append, visit_toStmt st r h.1 hv']
        congr 1
        by_cases e1 : T.buf.isEmpty = true <;> by_cases e2 : T.prevGroupEnd = true <;>
          simp [e1, e2, dropWs_append, dropWs_optNl] <;> (try (split <;> simp [dropWs_append, dropWs_optNl]))
      obtain ⟨i1, i2⟩ := ih h.2 _ hg
      refine ⟨i1, ?_⟩
      rw [i2, hb]
      simp [flatText, List.filter_cons, hv']

/-- On the subset, dropping whitespace from grass-model output gives the flatText text. -/
theorem dropWs_serialize (st : Style) (t : List SRule) (h : t.all SRule.ok = true) :
    dropWs (serialize st false (t.map SRule.toStmt)) = flatText st t := by
  obtain ⟨h1, h2⟩ := topLoop_subset st t h Top.init rfl
  simp only [serialize, finish, h1, Bool.and_false, Bool.false_eq_true, if_false]
  have : dropWs (Top.init).buf = [] := rfl
  rw [this, List.nil_append] at h2
  split
  · rw [dropWs_append, dropWs_optNl, List.append_nil, h2]
  · exact h2

/-- print → read round trip on declaration-only trees, both styles. -/
theorem readCss_serialize (st : Style) (t : List SRule) (h : t.all SRule.ok = true) :
    readCss (serialize st false (t.map SRule.toStmt)) = some (rulesOf t) :=
  readCss_of_flat st t h _ (dropWs_serialize st t h)

end Grass.Serialize
