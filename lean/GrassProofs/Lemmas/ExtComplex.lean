import Grass.Extend
import GrassProofs.Lemmas.ExtSem
import GrassProofs.Lemmas.SelGen
/-
  C10 helper lemmas at the complex level: membership in `paths`, what `trim` can return,
  credited matching as an instance of the generalised semantics.
-/
namespace Grass.Extend
open Grass.Selector

/-- `Pick path chs`: `path` takes one option from every choice, in order -/
def Pick {α : Type} : List α → List (List α) → Prop
  | [], [] => True
  | o :: os, ch :: chs => o ∈ ch ∧ Pick os chs
  | _, _ => False

theorem mem_paths_foldl {α : Type} :
    ∀ (chs : List (List α)) (ps : List (List α)) (path : List α),
      path ∈ chs.foldl (fun ps choice => choice.flatMap fun o => ps.map (· ++ [o])) ps ↔
        ∃ pre ∈ ps, ∃ suf, Pick suf chs ∧ path = pre ++ suf := by
  intro chs
  induction chs with
  | nil =>
    intro ps path
    simp only [List.foldl_nil]
    constructor
    · intro h; exact ⟨path, h, [], trivial, by simp⟩
    · rintro ⟨pre, hpre, suf, hs, rfl⟩
      cases suf with
      | nil => simpa using hpre
      | cons _ _ => exact hs.elim
  | cons ch rest ih =>
    intro ps path
    simp only [List.foldl_cons]
    rw [ih]
    constructor
    · rintro ⟨pre', hpre', suf', hs, rfl⟩
      simp only [List.mem_flatMap, List.mem_map] at hpre'
      obtain ⟨o, ho, pre, hpre, rfl⟩ := hpre'
      exact ⟨pre, hpre, o :: suf', ⟨ho, hs⟩, by simp⟩
    · rintro ⟨pre, hpre, suf, hs, rfl⟩
      cases suf with
      | nil => exact hs.elim
      | cons o suf' =>
        refine ⟨pre ++ [o], ?_, suf', hs.2, by simp⟩
        simp only [List.mem_flatMap, List.mem_map]
        exact ⟨o, hs.1, pre, hpre, rfl⟩

theorem mem_paths {α : Type} (chs : List (List α)) (path : List α) : path ∈ paths chs ↔ Pick path chs := by
  unfold paths
  rw [mem_paths_foldl]
  constructor
  · rintro ⟨pre, hpre, suf, hs, rfl⟩
    simp only [List.mem_singleton] at hpre; subst hpre; simpa using hs
  · intro h; exact ⟨[], by simp, path, h, by simp⟩

/-! ### what `trim` returns is taken from its input -/

theorem pullOut_mem (c1 : Complex) :
    ∀ (n : Nat) (result : List Flagged) (f : Flagged) (rest : List Flagged),
      pullOut c1 n result = some (f, rest) → ∀ x, x ∈ f :: rest → x ∈ result := by
  intro n
  induction n with
  | zero => intro result f rest h; simp [pullOut] at h
  | succ n ih =>
    intro result f rest h x hx
    cases result with
    | nil => simp [pullOut] at h
    | cons r rs =>
      unfold pullOut at h
      split at h
      · injection h with h; injection h with h1 h2; subst h1 h2; exact hx
      · split at h
        · rename_i f' rest' hp
          injection h with h; injection h with h1 h2; subst h1 h2
          have := ih rs f' rest' hp
          rcases List.mem_cons.1 hx with e | hx
          · exact List.mem_cons_of_mem _ (this x (by simp [e]))
          · rcases List.mem_cons.1 hx with e | hx
            · simp [e]
            · exact List.mem_cons_of_mem _ (this x (by simp [hx]))
        · cases h

theorem trimGo_mem (sup : Complex → Complex → Bool) (srcSpec : Simple → Nat) :
    ∀ (rest result : List Flagged) (n : Nat) (x : Flagged),
      x ∈ trimGo sup srcSpec rest result n → x ∈ rest ∨ x ∈ result := by
  intro rest
  induction rest with
  | nil => intro result n x h; simp only [trimGo] at h; exact Or.inr h
  | cons y earlier ih =>
    intro result n x h
    obtain ⟨c1, fl⟩ := y
    cases fl with
    | true =>
      unfold trimGo at h
      split at h
      · rename_i f rest' hp
        rcases ih _ _ x h with h1 | h1
        · exact Or.inl (List.mem_cons_of_mem _ h1)
        · exact Or.inr (pullOut_mem c1 n result f rest' hp x h1)
      · rcases ih _ _ x h with h1 | h1
        · exact Or.inl (List.mem_cons_of_mem _ h1)
        · rcases List.mem_cons.1 h1 with e | h2
          · exact Or.inl (by simp [e])
          · exact Or.inr h2
    | false =>
      unfold trimGo at h
      simp only at h
      split at h
      · rcases ih _ _ x h with h1 | h1
        · exact Or.inl (List.mem_cons_of_mem _ h1)
        · exact Or.inr h1
      · rcases ih _ _ x h with h1 | h1
        · exact Or.inl (List.mem_cons_of_mem _ h1)
        · rcases List.mem_cons.1 h1 with e | h2
          · exact Or.inl (by simp [e])
          · exact Or.inr h2

theorem trim_mem (sup : Complex → Complex → Bool) (srcSpec : Simple → Nat) (sels : List Flagged) (x : Flagged)
    (h : x ∈ trim sup srcSpec sels) : x ∈ sels := by
  unfold trim at h
  split at h
  · exact h
  · rcases trimGo_mem sup srcSpec _ _ _ x h with h1 | h1
    · simpa using h1
    · simp at h1

/-! ### credited matching is the generalised semantics at `cComp credit` -/

theorem cSteps_eq_g (credit : Simple → Ctx → Bool) : ∀ (st : RSteps) (p : Ctx), cSteps credit st p = gSteps (cComp credit) st p := by
  intro st
  induction st with
  | nil => intro p; simp [cSteps, gSteps]
  | cons x rest ih => intro p; obtain ⟨r, c⟩ := x; simp [cSteps, gSteps, ih]

theorem cComplex_eq_g (credit : Simple → Ctx → Bool) (X : Complex) (p : Ctx) :
    cComplex credit X p = gComplex (cComp credit) X p := by
  unfold cComplex gComplex
  cases norm X <;> simp [cSteps_eq_g]

end Grass.Extend
