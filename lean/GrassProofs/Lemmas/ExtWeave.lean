import Grass.Extend
/-
  `weave` (extend/functions.rs:68) on paths whose members are single components: the modelling step of
  `Grass.Extend.extendComplex` ("every extender is a single compound, so `weave` of a path is the
  concatenation of its components") as a theorem about the model of `weave` itself.
-/
namespace Grass.Extend
open Grass.Selector

theorem weaveStep_single (wp : Complex → Complex → Option (List Complex)) (pre : Complex) (c : Component) :
    weaveStep wp [pre] [c] = [pre ++ [c]] := by
  simp [weaveStep]

theorem weave_foldl_singletons (wp : Complex → Complex → Option (List Complex)) :
    ∀ (rest : List Complex) (pre : Complex), (∀ x ∈ rest, ∃ c, x = [c]) →
      rest.foldl (weaveStep wp) [pre] = [pre ++ rest.flatMap id] := by
  intro rest
  induction rest with
  | nil => intro pre _; simp
  | cons x xs ih =>
    intro pre h
    obtain ⟨c, rfl⟩ := h x (by simp)
    rw [List.foldl_cons, weaveStep_single, ih (pre ++ [c]) (fun y hy => h y (by simp [hy]))]
    simp [List.flatMap_cons]

theorem weaveWith_singletons (wp : Complex → Complex → Option (List Complex)) (path : List Complex)
    (hne : path ≠ []) (h : ∀ x ∈ path, ∃ c, x = [c]) : weaveWith wp path = [path.flatMap id] := by
  cases path with
  | nil => exact absurd rfl hne
  | cons first rest =>
    simp only [weaveWith]
    rw [weave_foldl_singletons wp rest first (fun y hy => h y (by simp [hy]))]
    simp [List.flatMap_cons]

end Grass.Extend
