import GrassProofs.Lemmas.Num
/-
  C07 round 3 — helper lemmas: the arithmetic clause (`D.ofExact`), literals, the prefix scanner.
-/
namespace Grass.Num

theorem inf_ne_fin (b : Bool) (r : Rat) : D.inf b ≠ D.fin r := by cases b <;> simp [D.inf]

/-- a non-zero exact result that the model turns into a finite double: rounded once, relative error
    ≤ 2⁻⁵³, inside the normal range -/
theorem ofExact_fin (q : Rat) (z : Bool) (r : Rat) (hq : q ≠ 0) (h : D.ofExact q z = some (.fin r)) :
    r = rnd53 q ∧ absQ (r - q) * 9007199254740992 ≤ absQ q ∧ absQ r < pow2 1024 ∧ -1022 ≤ expOf r := by
  unfold D.ofExact at h
  rw [if_neg hq] at h
  unfold D.ofNonzero at h
  simp only at h
  split at h
  · injection h with h; exact absurd h (inf_ne_fin _ _)
  · rename_i h1
    split at h
    · cases h
    · rename_i h2
      injection h with h; injection h with h
      subst h
      exact ⟨rfl, rnd53_relative q hq, by grind, by grind⟩

/-- the model refuses (`none`) exactly the results below the normal range — overflow is not refused,
    it is ±Infinity -/
theorem ofExact_none_iff (q : Rat) (z : Bool) :
    D.ofExact q z = none ↔ q ≠ 0 ∧ absQ (rnd53 q) < pow2 1024 ∧ expOf (rnd53 q) < -1022 := by
  unfold D.ofExact
  by_cases hq : q = 0
  · simp [hq]
  · rw [if_neg hq]
    unfold D.ofNonzero
    simp only
    split
    · rename_i h1; simp; intro _ h; grind
    · rename_i h1
      split
      · rename_i h2; simp [hq, h2]; grind
      · rename_i h2; simp; intro _ _; grind

theorem ofExact_inf (q : Rat) (z : Bool) (hq : q ≠ 0) (h : pow2 1024 ≤ absQ (rnd53 q)) :
    D.ofExact q z = some (D.inf (decide (q < 0))) := by
  unfold D.ofExact
  rw [if_neg hq]
  unfold D.ofNonzero
  simp only
  rw [if_pos h]

theorem div_fin_fin (x y : Rat) (hy : y ≠ 0) :
    D.div (.fin x) (.fin y) = D.ofExact (x / y) (decide (x < 0) != decide (y < 0)) := by
  simp [D.div, D.isInf, D.isZero, D.toRat?, D.isNeg, hy]

theorem sub_fin_fin (x y : Rat) (hy : y ≠ 0) : D.sub (.fin x) (.fin y) = D.ofExact (x - y) false := by
  simp [D.sub, D.neg, hy, D.add, Rat.sub_eq_add_neg]

/-! ### the scanner against the grammar -/

theorem tw_all (ds : List Char) (h : ds.all isDigit = true) :
    ds.takeWhile isDigit = ds ∧ ds.dropWhile isDigit = [] := by
  have h' : ∀ c ∈ ds, isDigit c = true := by simpa using h
  have := takeWhile_digits ds [] h' (Or.inl rfl)
  simpa using this

theorem scanExp_of_parseExp (s : List Char) (e : Int) (h : parseExp s = some e) : scanExp s = some (e, []) := by
  unfold parseExp at h
  unfold scanExp
  split at h
  · injection h with h; subst h; rfl
  · rename_i c r
    split at h
    · rename_i hc
      simp only [hc, if_true]
      split at h
      · rename_i ds
        split at h
        · rename_i hd; injection h with h; subst h
          obtain ⟨t1, t2⟩ := tw_all ds hd.2
          simp [t1, t2, hd.1]
        · cases h
      · rename_i ds
        split at h
        · rename_i hd; injection h with h; subst h
          obtain ⟨t1, t2⟩ := tw_all ds hd.2
          simp [t1, t2, hd.1]
        · cases h
      · rename_i ds hp hm
        split at h
        · rename_i hd; injection h with h; subst h
          obtain ⟨t1, t2⟩ := tw_all r hd.2
          simp [t1, t2, hd.1]
        · cases h
    · cases h


theorem dw_of_tw_nil (s : List Char) (h : s.takeWhile isDigit = []) : s.dropWhile isDigit = s := by
  cases s with
  | nil => rfl
  | cons c r =>
    cases hc : isDigit c
    · simp [List.dropWhile, hc]
    · simp [List.takeWhile, hc] at h

theorem scanBody_of_parseBody (neg : Bool) (s : List Char) (l : Lit) (h : parseBody neg s = some l) :
    scanBody neg s = .ok l [] := by
  unfold parseBody at h
  unfold scanBody
  simp only at h ⊢
  split at h
  · cases h
  · rename_i hg
    have hg' : ¬ (List.takeWhile isDigit s = [] ∧ s.head? ≠ some '.') := by
      intro ⟨a, b⟩
      exact hg ⟨a, by rw [dw_of_tw_nil s a]; exact b⟩
    rw [if_neg hg']
    split at h
    · rename_i r heq
      split at h
      · cases h
      · rename_i hf
        cases hr : r with
        | nil => simp [hr] at hf
        | cons c r' =>
          have hc : isDigit c = true := by
            cases hcd : isDigit c
            · simp [hr, List.takeWhile, hcd] at hf
            · rfl
          simp only [hc, if_true]
          rw [hr] at h
          cases hp : parseExp (List.dropWhile isDigit (c :: r')) with
          | none => simp [hp] at h
          | some e =>
            rw [scanExp_of_parseExp _ e hp]
            simp [hp] at h
            simp [← h]
    · rename_i hnd
      cases hp : parseExp (List.dropWhile isDigit s) with
      | none => simp [hp] at h
      | some e =>
        simp [hp] at h
        have hs := scanExp_of_parseExp _ e hp
        rw [hs]; simp [← h]

theorem scanNumber_of_parseLit (s : List Char) (l : Lit) (h : parseLit s = some l) : scanNumber s = .ok l [] := by
  unfold parseLit at h
  unfold scanNumber
  split at h
  · exact scanBody_of_parseBody _ _ _ h
  · exact scanBody_of_parseBody _ _ _ h
  · rename_i hm hp
    split
    · rename_i r; exact absurd rfl (hp r)
    · rename_i r; exact absurd rfl (hm r)
    · exact scanBody_of_parseBody _ _ _ h

end Grass.Num
