import GrassProofs.Lemmas.ColorNum
/-
  Helper lemmas for C15: bounds of the hsl/hwb → rgb conversions.
-/
namespace Grass.Color

/-- linear interpolation between `m1 ≤ m2` with parameter in [0,1] stays in [m1,m2]. -/
theorem interp_bounds {m1 m2 t : Rat} (h : m1 ≤ m2) (t0 : 0 ≤ t) (t1 : t ≤ 1) :
    m1 ≤ (m2 - m1) * t + m1 ∧ (m2 - m1) * t + m1 ≤ m2 := by
  have d0 : 0 ≤ m2 - m1 := by grind
  have p0 : 0 ≤ (m2 - m1) * t := Rat.mul_nonneg d0 t0
  have p1 : (m2 - m1) * t ≤ (m2 - m1) * 1 := Rat.mul_le_mul_of_nonneg_left t1 d0
  constructor <;> grind

/-- `hue_to_rgb` returns a value between `m1` and `m2` for every hue grass passes (−1…2). -/
theorem hueToRgb_bounds {m1 m2 hue : Rat} (h : m1 ≤ m2) (h0 : -1 ≤ hue) (h1 : hue ≤ 2) :
    m1 ≤ hueToRgb m1 m2 hue ∧ hueToRgb m1 m2 hue ≤ m2 := by
  unfold hueToRgb
  simp only []
  generalize hu1 : (if hue < 0 then hue + 1 else hue) = u1
  have a1 : 0 ≤ u1 ∧ u1 ≤ 2 := by subst hu1; split <;> grind
  generalize hu2 : (if u1 > 1 then u1 - 1 else u1) = u2
  have a2 : 0 ≤ u2 ∧ u2 ≤ 1 := by subst hu2; split <;> grind
  split
  · have := @interp_bounds m1 m2 (u2 * 6) h (by grind) (by grind)
    grind
  · split
    · grind
    · split
      · have := @interp_bounds m1 m2 ((2/3 - u2) * 6) h (by grind) (by grind)
        grind
      · grind

/-- `m1 ≤ m2` and both in [0,1] for saturation and lightness in [0,1] (from_hsla, color/mod.rs:383). -/
theorem m1m2_bounds {ss sl : Rat} (s0 : 0 ≤ ss) (s1 : ss ≤ 1) (l0 : 0 ≤ sl) (l1 : sl ≤ 1) :
    let m2 := if sl ≤ 1/2 then sl * (ss + 1) else sl * (-ss) + (sl + ss)
    let m1 := sl * 2 + (-m2)
    0 ≤ m1 ∧ m1 ≤ m2 ∧ m2 ≤ 1 := by
  intro m2 m1
  have p := Rat.mul_nonneg l0 s0                       -- 0 ≤ sl*ss
  have q : sl * ss ≤ sl * 1 := Rat.mul_le_mul_of_nonneg_left s1 l0
  have r : (1 - sl) * ss ≤ (1 - sl) * 1 := Rat.mul_le_mul_of_nonneg_left s1 (by grind)
  have r0 : 0 ≤ (1 - sl) * ss := Rat.mul_nonneg (by grind) s0
  simp only [m1, m2]
  split <;> grind

theorem hslToRgbExact_bounds {hue sat light : Rat} (h0 : 0 ≤ hue) (h1 : hue < 360) :
    let (r, g, b) := hslToRgbExact hue sat light
    (0 ≤ r ∧ r ≤ 255) ∧ (0 ≤ g ∧ g ≤ 255) ∧ (0 ≤ b ∧ b ≤ 255) := by
  unfold hslToRgbExact
  simp only []
  have ⟨s0, s1⟩ := clamp_bounds sat 0 1 (by decide +kernel)
  have ⟨l0, l1⟩ := clamp_bounds light 0 1 (by decide +kernel)
  have ⟨a, b, c⟩ := m1m2_bounds s0 s1 l0 l1
  try simp only [] at a b c
  have x1 := hueToRgb_bounds (hue := hue / 360 + 1/3) b (by grind) (by grind)
  have x2 := hueToRgb_bounds (hue := hue / 360) b (by grind) (by grind)
  have x3 := hueToRgb_bounds (hue := hue / 360 - 1/3) b (by grind) (by grind)
  refine ⟨⟨?_, ?_⟩, ⟨?_, ?_⟩, ⟨?_, ?_⟩⟩ <;> grind

theorem div_nonneg' {a b : Rat} (ha : 0 ≤ a) (hb : 0 < b) : 0 ≤ a / b := by
  rw [Rat.div_def]
  exact Rat.mul_nonneg ha (Rat.le_of_lt (Rat.inv_pos.mpr hb))

/-- channels of `from_hwb` before rounding lie in [0,255] for non-negative whiteness/blackness. -/
theorem hwbToRgbExact_bounds {hue white black : Rat} (w0 : 0 ≤ white) (b0 : 0 ≤ black) :
    let (r, g, b) := hwbToRgbExact hue white black
    (0 ≤ r ∧ r ≤ 255) ∧ (0 ≤ g ∧ g ≤ 255) ∧ (0 ≤ b ∧ b ≤ 255) := by
  unfold hwbToRgbExact
  simp only []
  have ⟨h0, h1⟩ := sassMod_bounds hue
  generalize sassMod hue 360 = hm at h0 h1
  generalize hsw : (if white / 100 + black / 100 > 1 then white / 100 / (white / 100 + black / 100) else white / 100) = sw
  generalize hsb : (if white / 100 + black / 100 > 1 then black / 100 / (white / 100 + black / 100) else black / 100) = sb
  have key : 0 ≤ sw ∧ 0 ≤ sb ∧ sw + sb ≤ 1 := by
    subst hsw hsb
    split
    · rename_i hs
      have hpos : 0 < white / 100 + black / 100 := by grind
      have a := div_nonneg' (a := white / 100) (by grind) hpos
      have b := div_nonneg' (a := black / 100) (by grind) hpos
      refine ⟨a, b, ?_⟩
      have : white / 100 + black / 100 ≠ 0 := by grind
      grind
    · grind
  obtain ⟨k0, k1, k2⟩ := key
  have f0 : 0 ≤ 1 - sw - sb := by grind
  have bound : ∀ t : Rat, 0 ≤ t → t ≤ 1 → 0 ≤ (t * (1 - sw - sb) + sw) * 255 ∧ (t * (1 - sw - sb) + sw) * 255 ≤ 255 := by
    intro t t0 t1
    have p0 := Rat.mul_nonneg t0 f0
    have p1 : (1 - sw - sb) * t ≤ (1 - sw - sb) * 1 := Rat.mul_le_mul_of_nonneg_left t1 f0
    constructor <;> grind
  have x1 := hueToRgb_bounds (m1 := 0) (m2 := 1) (hue := hm / 360 + 1/3) (by decide +kernel) (by grind) (by grind)
  have x2 := hueToRgb_bounds (m1 := 0) (m2 := 1) (hue := hm / 360) (by decide +kernel) (by grind) (by grind)
  have x3 := hueToRgb_bounds (m1 := 0) (m2 := 1) (hue := hm / 360 - 1/3) (by decide +kernel) (by grind) (by grind)
  exact ⟨bound _ x1.1 x1.2, bound _ x2.1 x2.2, bound _ x3.1 x3.2⟩

end Grass.Color
