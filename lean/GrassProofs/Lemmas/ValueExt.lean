import Grass.Value
import GrassProofs.Lemmas.ValueNum
import GrassProofs.Lemmas.ValueEq
import GrassProofs.Lemmas.ValueEquiv
/-
  Helper lemmas for C09, extended universe (round 3).

  `enc : XV → Value` embeds the extended universe (compound units, calculations, function
  references) into the old one in such a way that `xeq sw a b = veq sw (enc a) (enc b)`
  (`enc_eq`).  `enc` exists only for the proofs: it lets reflexivity / symmetry / transitivity
  of `xeq` be inherited from the theorems about `veq`.  New leaves become bracketed
  `undecided` lists headed by a tag string; strings of the universe are prefixed with `s`, so a
  tag (`u`, `c`, `fb`, `fu`, `fp`) never equals the encoding of any value.
-/
set_option linter.unusedSimpArgs false
set_option linter.unusedVariables false
namespace Grass.Value

/-! ### an injective rendering of simple units -/

def U.code : U → Nat
  | .px => 1 | .mm => 2 | .inch => 3 | .cm => 4 | .q => 5 | .pt => 6 | .pc => 7
  | .em => 8 | .rem => 9 | .lh => 10 | .ex => 11 | .ch => 12 | .cap => 13 | .ic => 14 | .rlh => 15
  | .vw => 16 | .vh => 17 | .vmin => 18 | .vmax => 19 | .vi => 20 | .vb => 21
  | .deg => 22 | .grad => 23 | .rad => 24 | .turn => 25 | .s => 26 | .ms => 27 | .hz => 28 | .khz => 29
  | .dpi => 30 | .dpcm => 31 | .dppx => 32 | .fr => 33 | .percent => 34 | .none => 35
  | .unknown _ => 0

def U.decode : Nat → U
  | 1 => .px | 2 => .mm | 3 => .inch | 4 => .cm | 5 => .q | 6 => .pt | 7 => .pc
  | 8 => .em | 9 => .rem | 10 => .lh | 11 => .ex | 12 => .ch | 13 => .cap | 14 => .ic | 15 => .rlh
  | 16 => .vw | 17 => .vh | 18 => .vmin | 19 => .vmax | 20 => .vi | 21 => .vb
  | 22 => .deg | 23 => .grad | 24 => .rad | 25 => .turn | 26 => .s | 27 => .ms | 28 => .hz | 29 => .khz
  | 30 => .dpi | 31 => .dpcm | 32 => .dppx | 33 => .fr | 34 => .percent | _ => .none

def U.unk? : U → Option (List Char)
  | .unknown n => some n
  | _ => Option.none

def U.tag (u : U) : List Char :=
  match u.unk? with
  | some n => 'u' :: n
  | Option.none => 'k' :: List.replicate u.code 'x'

theorem U.unk_some (u : U) (n : List Char) (h : u.unk? = some n) : u = .unknown n := by
  cases u <;> simp [U.unk?] at h ⊢; exact h

theorem U.decode_code (u : U) (h : u.unk? = Option.none) : U.decode u.code = u := by
  cases u <;> simp [U.unk?] at h <;> rfl

theorem replicate_inj (n m : Nat) (c : Char) (h : List.replicate n c = List.replicate m c) : n = m := by
  have := congrArg List.length h
  simpa using this

theorem U.tag_inj (a b : U) (h : a.tag = b.tag) : a = b := by
  unfold U.tag at h
  cases ha : a.unk? <;> cases hb : b.unk? <;> simp only [ha, hb] at h
  · have h' := replicate_inj _ _ _ (List.cons.inj h).2
    rw [← U.decode_code a ha, ← U.decode_code b hb, h']
  · simp at h
  · simp at h
  · rename_i n m
    have : n = m := (List.cons.inj h).2
    rw [U.unk_some a n ha, U.unk_some b m hb, this]

theorem U.tag_eq_iff (a b : U) : decide (a.tag = b.tag) = decide (a = b) := by
  by_cases h : a = b
  · simp [h]
  · have : a.tag ≠ b.tag := fun e => h (U.tag_inj a b e)
    simp [h, this]

def natTag (n : Nat) : List Char := List.replicate n 'i'

theorem natTag_eq_iff (n m : Nat) : decide (natTag n = natTag m) = decide (n = m) := by
  by_cases h : n = m
  · simp [h]
  · have : natTag n ≠ natTag m := fun e => h (replicate_inj _ _ _ e)
    simp [h, this]

/-! ### the encoding -/

def encU (u : U) : Value := .str u.tag false

def encUs : List U → VList
  | [] => .nil
  | u :: t => .cons (encU u) (encUs t)

/-- a new leaf: a bracketed `undecided` list headed by a tag string -/
def leaf (t : List Char) (r : VList) : Value := .list (.cons (.str t false) r) .undecided true

def encNum (n : Num) : XU → Value
  | .simple a => .num n a
  | .complex nu de =>
    leaf ['u'] (.cons (.num n .none) (.cons (.list (encUs nu) .comma false)
      (.cons (.list (encUs de) .comma false) .nil)))

def nameTag : CName → List Char
  | .calc => ['c'] | .min => ['m'] | .max => ['M'] | .clamp => ['C']

def opTag : COp → List Char
  | .plus => ['p'] | .minus => ['m'] | .times => ['t'] | .div => ['d']

mutual
  def encC : CArg → Value
    | .number n u => encNum n u
    | .calc nm as => .list (.cons (.str (nameTag nm) false) (encCs as)) .comma true
    | .str s => .str ('S' :: s) false
    | .op l o r => .list (.cons (.str (opTag o) false) (.cons (encC l) (.cons (encC r) .nil))) .space true
    | .interp s => .str ('I' :: s) false
  def encCs : CArgs → VList
    | .nil => .nil
    | .cons a t => .cons (encC a) (encCs t)
end

def encFn : FnRef → Value
  | .builtin id nm => leaf ['f', 'b'] (.cons (.str (natTag id) false) (.cons (.str nm false) .nil))
  | .user nm lo hi => leaf ['f', 'u'] (.cons (.str nm false) (.cons (.str (natTag lo) false)
      (.cons (.str (natTag hi) false) .nil)))
  | .plain nm => leaf ['f', 'p'] (.cons (.str nm false) .nil)

mutual
  def enc : XV → Value
    | .null => .null
    | .bool b => .bool b
    | .num n u => encNum n u
    | .str s q => .str ('s' :: s) q
    | .color r g b a => .color r g b a
    | .calc nm as => leaf ['c'] (.cons (.str (nameTag nm) false) (encCs as))
    | .fn f => encFn f
    | .list es sp br => .list (encL es) sp br
    | .map ps => .map (encP ps)
    | .arglist es kw sp => .arglist (encL es) (encP kw) sp
  def encL : XVList → VList
    | .nil => .nil
    | .cons v t => .cons (enc v) (encL t)
  def encP : XVPairs → VPairs
    | .nil => .nil
    | .cons k v t => .cons (enc k) (enc v) (encP t)
end

/-! ### numbers -/

theorem veqL_encUs (sw : Sw) : ∀ (l1 l2 : List U), veqL sw (encUs l1) (encUs l2) = decide (l1 = l2)
  | [], [] => by simp [encUs, veqL]
  | [], _ :: _ => by simp [encUs, veqL]
  | _ :: _, [] => by simp [encUs, veqL]
  | a :: t, b :: u => by
    simp only [encUs, veqL, encU, veq, veqL_encUs sw t u, U.tag_eq_iff]
    by_cases h1 : a = b <;> by_cases h2 : t = u <;> simp [h1, h2]

theorem numEq_none (sw : Sw) (n1 n2 : Num) : numEq sw n1 .none n2 .none = fuzzyN n1 n2 := by
  cases h : sw.canon <;> simp [numEq, comparable, U.canonical, U.kind, conv, h]

theorem xnumEq_simple_complex (sw : Sw) (n1 n2 : Num) (a : U) (nu de : List U) :
    xnumEq sw n1 (.simple a) n2 (.complex nu de) = false := by
  cases a <;> simp [xnumEq, xcomparable, XU.kind, U.kind]

theorem xnumEq_complex_simple (sw : Sw) (n1 n2 : Num) (b : U) (nu de : List U) :
    xnumEq sw n1 (.complex nu de) n2 (.simple b) = false := by
  by_cases h : b = .none <;> simp [xnumEq, xcomparable, XU.kind, h]

theorem xnumEq_complex_complex (sw : Sw) (n1 n2 : Num) (nu1 de1 nu2 de2 : List U) :
    xnumEq sw n1 (.complex nu1 de1) n2 (.complex nu2 de2) =
      (decide (nu1 = nu2) && decide (de1 = de2) && fuzzyN n1 n2) := by
  by_cases h1 : nu1 = nu2 <;> by_cases h2 : de1 = de2 <;> simp [xnumEq, xcomparable, XU.kind, h1, h2]

theorem encNum_eq (sw : Sw) (n1 n2 : Num) (u1 u2 : XU) :
    veq sw (encNum n1 u1) (encNum n2 u2) = xnumEq sw n1 u1 n2 u2 := by
  cases u1 <;> cases u2
  · simp [encNum, veq, xnumEq]
  · simp [encNum, veq, leaf, xnumEq_simple_complex]
  · simp [encNum, veq, leaf, xnumEq_complex_simple]
  · rename_i nu1 de1 nu2 de2
    rw [xnumEq_complex_complex]
    simp only [encNum, leaf, veq, veqL, veqL_encUs, numEq_none]
    by_cases h1 : nu1 = nu2 <;> by_cases h2 : de1 = de2 <;> simp [h1, h2]

/-! ### calculations -/

theorem nameTag_eq_iff (a b : CName) : decide (nameTag a = nameTag b) = decide (a = b) := by
  cases a <;> cases b <;> simp [nameTag]

theorem opTag_eq_iff (a b : COp) : decide (opTag a = opTag b) = decide (a = b) := by
  cases a <;> cases b <;> simp [opTag]

mutual
  theorem encC_eq (sw : Sw) : ∀ (a b : CArg), veq sw (encC a) (encC b) = cargEq sw a b
    | .number n1 u1, b => by
      cases b
      · simp only [encC, cargEq]; exact encNum_eq sw _ _ _ _
      all_goals (cases u1 <;> simp [encC, cargEq, encNum, leaf, veq])
    | .calc nm as, b => by
      cases b
      · rename_i n2 u2; cases u2 <;> simp [encC, cargEq, encNum, leaf, veq]
      · rename_i nm2 bs
        simp only [encC, cargEq, veq, veqL, nameTag_eq_iff, encCs_eq sw as bs]
        simp
      all_goals simp [encC, cargEq, veq]
    | .str s, b => by
      cases b
      · rename_i n2 u2; cases u2 <;> simp [encC, cargEq, encNum, leaf, veq]
      all_goals simp [encC, cargEq, veq]
    | .interp s, b => by
      cases b
      · rename_i n2 u2; cases u2 <;> simp [encC, cargEq, encNum, leaf, veq]
      all_goals simp [encC, cargEq, veq]
    | .op l o r, b => by
      cases b
      · rename_i n2 u2; cases u2 <;> simp [encC, cargEq, encNum, leaf, veq]
      · simp [encC, cargEq, veq]
      · simp [encC, cargEq, veq]
      · rename_i l2 o2 r2
        simp only [encC, cargEq, veq, veqL, opTag_eq_iff, encC_eq sw l l2, encC_eq sw r r2]
        cases cargEq sw l l2 <;> cases cargEq sw r r2 <;> simp
      · simp [encC, cargEq, veq]
  theorem encCs_eq (sw : Sw) : ∀ (as bs : CArgs), veqL sw (encCs as) (encCs bs) = cargsEq sw as bs
    | .nil, bs => by cases bs <;> simp [encCs, cargsEq, veqL]
    | .cons a t, bs => by
      cases bs
      · simp [encCs, cargsEq, veqL]
      · rename_i b u
        simp only [encCs, cargsEq, veqL, encC_eq sw a b, encCs_eq sw t u]
end

/-! ### function references -/

theorem encFn_eq (sw : Sw) (f g : FnRef) : veq sw (encFn f) (encFn g) = decide (f = g) := by
  cases f <;> cases g <;> simp [encFn, leaf, veq, veqL, natTag_eq_iff]
  all_goals (first | done | (constructor <;> (intro h; simp_all)) | skip)

/-! ### a tag never equals the encoding of a value -/

def isTag (t : List Char) : Prop := ∀ s, t ≠ 's' :: s

theorem veq_tag_enc (sw : Sw) (t : List Char) (q : Bool) (ht : isTag t) (x : XV) :
    veq sw (.str t q) (enc x) = false := by
  cases x <;> simp only [enc, veq]
  · rename_i n u; cases u <;> simp [encNum, leaf, veq]
  · exact decide_eq_false (ht _)
  · simp [leaf, veq]
  · rename_i f; cases f <;> simp [encFn, leaf, veq]

theorem veq_enc_tag (sw : Sw) (t : List Char) (q : Bool) (ht : isTag t) (x : XV) :
    veq sw (enc x) (.str t q) = false := by
  cases x <;> simp only [enc, veq]
  · rename_i n u; cases u <;> simp [encNum, leaf, veq]
  · exact decide_eq_false (fun e => ht _ e.symm)
  · simp [leaf, veq]
  · rename_i f; cases f <;> simp [encFn, leaf, veq]

/-- a new leaf against the encoding of a list / argument list / anything that is not a leaf of its own kind -/
theorem veq_leaf_list (sw : Sw) (t : List Char) (ht : isTag t) (r : VList) (es : XVList) (sp : Sep) (br : Bool) :
    veq sw (leaf t r) (.list (encL es) sp br) = false := by
  cases es
  · simp [leaf, veq, encL, veqL]
  · simp [leaf, veq, encL, veqL, veq_tag_enc sw t false ht]

theorem veq_list_leaf (sw : Sw) (t : List Char) (ht : isTag t) (r : VList) (es : XVList) (sp : Sep) (br : Bool) :
    veq sw (.list (encL es) sp br) (leaf t r) = false := by
  cases es
  · simp [leaf, veq, encL, veqL]
  · simp [leaf, veq, encL, veqL, veq_enc_tag sw t false ht]

theorem veq_leaf_arglist (sw : Sw) (t : List Char) (r : VList) (es : VList) (kw : VPairs) (sp : Sep) :
    veq sw (leaf t r) (.arglist es kw sp) = false := by
  cases h : sw.argAsList <;> simp [leaf, veq, h]

theorem veq_arglist_leaf (sw : Sw) (t : List Char) (r : VList) (es : VList) (kw : VPairs) (sp : Sep) :
    veq sw (.arglist es kw sp) (leaf t r) = false := by
  cases h : sw.argAsList <;> simp [leaf, veq, h]

theorem isTag_u : isTag ['u'] := by intro s; simp
theorem isTag_c : isTag ['c'] := by intro s; simp
theorem isTag_fb : isTag ['f', 'b'] := by intro s; simp
theorem isTag_fu : isTag ['f', 'u'] := by intro s; simp
theorem isTag_fp : isTag ['f', 'p'] := by intro s; simp

/-- the shape of an encoded number: an old number, or a `u` leaf -/
theorem encNum_shape (n : Num) (u : XU) :
    (∃ a, encNum n u = .num n a) ∨ (∃ r, encNum n u = leaf ['u'] r) := by
  cases u
  · exact Or.inl ⟨_, rfl⟩
  · exact Or.inr ⟨_, rfl⟩

/-- the shape of an encoded function reference: a leaf with one of three tags -/
theorem encFn_shape (f : FnRef) : ∃ t r, isTag t ∧ t ≠ ['u'] ∧ t ≠ ['c'] ∧ encFn f = leaf t r := by
  cases f
  · exact ⟨_, _, isTag_fb, by simp, by simp, rfl⟩
  · exact ⟨_, _, isTag_fu, by simp, by simp, rfl⟩
  · exact ⟨_, _, isTag_fp, by simp, by simp, rfl⟩

theorem veq_leaf_leaf_ne (sw : Sw) (t1 t2 : List Char) (r1 r2 : VList) (h : t1 ≠ t2) :
    veq sw (leaf t1 r1) (leaf t2 r2) = false := by
  simp [leaf, veq, veqL, h]

theorem encP_length : ∀ (p : XVPairs), (encP p).length = p.length
  | .nil => rfl
  | .cons k v t => by simp [encP, VPairs.length, XVPairs.length, encP_length t]

theorem any_enc (f : Value → Value → Bool) (g : XV → XV → Bool)
    (h : ∀ k2 v2, f (enc k2) (enc v2) = g k2 v2) : ∀ (q : XVPairs), (encP q).any f = q.any g
  | .nil => rfl
  | .cons k v t => by simp [encP, VPairs.any, XVPairs.any, h, any_enc f g h t]

end Grass.Value
