import Grass.Selector
import GrassProofs.Lemmas.SelSem
/-
  Left-to-right ("anchored") reading of the matching semantics and the soundness of the
  superselector walk of complex.rs:141 (specified variant).
-/
namespace Grass.Selector

/-- `LF c st q p`: the forward normal form `(c, st)` matches with its leftmost compound placed at
    context `q` and its target at `p`. -/
def LF : Compound → List (Rel × Compound) → Ctx → Ctx → Prop
  | c, [], q, p => q = p ∧ mComp c p = true
  | c, (r, d) :: rest, q, p => mComp c q = true ∧ ∃ q2, q ∈ steps r q2 ∧ LF d rest q2 p

theorem mSteps_cons (r : Rel) (h : Compound) (acc : RSteps) (q2 : Ctx) :
    mSteps ((r, h) :: acc) q2 = (steps r q2).any (fun q => mComp h q && mSteps acc q) := by
  simp [mSteps]

theorem mRC_revGo : ∀ (st : List (Rel × Compound)) (h : Compound) (acc : RSteps) (p : Ctx),
    mRC (revGo h acc st) p = true ↔ ∃ q, LF h st q p ∧ mSteps acc q = true := by
  intro st
  induction st with
  | nil =>
    intro h acc p
    simp only [revGo, mRC, LF, Bool.and_eq_true]
    constructor
    · intro ⟨a, b⟩; exact ⟨p, ⟨rfl, a⟩, b⟩
    · intro ⟨q, ⟨e, a⟩, b⟩; subst e; exact ⟨a, b⟩
  | cons x rest ih =>
    intro h acc p
    obtain ⟨r, c⟩ := x
    simp only [revGo]
    rw [ih c ((r, h) :: acc) p]
    constructor
    · intro ⟨q2, hl, hm⟩
      rw [mSteps_cons, List.any_eq_true] at hm
      obtain ⟨q, hq, hm⟩ := hm
      simp only [Bool.and_eq_true] at hm
      exact ⟨q, ⟨hm.1, q2, hq, hl⟩, hm.2⟩
    · intro ⟨q, ⟨hc, q2, hq, hl⟩, hm⟩
      refine ⟨q2, hl, ?_⟩
      rw [mSteps_cons, List.any_eq_true]
      exact ⟨q, hq, by simp [hc, hm]⟩

def LX (X : Complex) (q p : Ctx) : Prop :=
  match fwd X with
  | none => False
  | some (c, st) => LF c st q p

theorem matchesComplex_iff (X : Complex) (p : Ctx) : matchesComplex X p = true ↔ ∃ q, LX X q p := by
  unfold matchesComplex norm LX
  cases h : fwd X with
  | none => simp
  | some cs =>
    obtain ⟨c, st⟩ := cs
    simp only
    rw [mRC_revGo]
    simp [mSteps]

theorem LX_nil (q p : Ctx) : ¬ LX [] q p := by simp [LX, fwd]
theorem LX_comb_head (cb : Comb) (X : Complex) (q p : Ctx) : ¬ LX (.comb cb :: X) q p := by simp [LX, fwd]

theorem LX_single (c : Compound) (q p : Ctx) : LX [.compound c] q p ↔ q = p ∧ mComp c p = true := by
  simp [LX, fwd, LF]

theorem LX_comb (c : Compound) (cb : Comb) (rest : Complex) (q p : Ctx) :
    LX (.compound c :: .comb cb :: rest) q p ↔
      mComp c q = true ∧ ∃ q2, q ∈ steps cb.rel q2 ∧ LX rest q2 p := by
  unfold LX
  simp only [fwd]
  cases h : fwd rest with
  | none => simp
  | some ds => obtain ⟨d, ds⟩ := ds; simp [LF]

theorem LX_desc (c d : Compound) (rest : Complex) (q p : Ctx) :
    LX (.compound c :: .compound d :: rest) q p ↔
      mComp c q = true ∧ ∃ q2, q ∈ steps .desc q2 ∧ LX (.compound d :: rest) q2 p := by
  unfold LX
  simp only [fwd]
  cases h : fwd (.compound d :: rest) with
  | none => simp
  | some ds => obtain ⟨d', ds⟩ := ds; simp [LF]

/-! ### the step relations as suffix facts -/

theorem mem_splits {α : Type} (x : α) (t : List α) : ∀ (l : List α), (x, t) ∈ splits l ↔ (x :: t) <:+ l := by
  intro l
  induction l with
  | nil => simp [splits]
  | cons y ys ih =>
    simp only [splits, List.mem_cons, Prod.mk.injEq, ih, List.suffix_cons_iff]
    constructor
    · rintro (⟨a, b⟩ | h)
      · left; rw [a, b]
      · right; exact h
    · rintro (h | h)
      · left; injection h with a b; exact ⟨a, b⟩
      · right; exact h

theorem mem_steps_child (q p : Ctx) : q ∈ steps .child p ↔ p.anc = q.cur :: q.anc := by
  obtain ⟨qc, qa⟩ := q
  simp only [steps]
  split
  · rename_i h; simp [h]
  · rename_i l anc h
    simp only [h, List.mem_singleton, Ctx.mk.injEq, List.cons.injEq]
    constructor
    · rintro ⟨a, b⟩; exact ⟨a.symm, b.symm⟩
    · rintro ⟨a, b⟩; exact ⟨a.symm, b.symm⟩

theorem mem_steps_desc (q p : Ctx) : q ∈ steps .desc p ↔ (q.cur :: q.anc) <:+ p.anc := by
  obtain ⟨qc, qa⟩ := q
  simp only [steps, List.mem_map]
  constructor
  · rintro ⟨⟨l, anc⟩, hm, e⟩
    injection e with a b; subst a b
    exact (mem_splits _ _ _).1 hm
  · intro h
    exact ⟨(qc, qa), (mem_splits _ _ _).2 h, rfl⟩

theorem mem_steps_next (q p : Ctx) :
    q ∈ steps .next p ↔ q.anc = p.anc ∧ p.cur.sibs = q.cur.el :: q.cur.sibs := by
  obtain ⟨⟨qe, qs⟩, qa⟩ := q
  simp only [steps]
  split
  · rename_i h; simp [h]
  · rename_i s ss h
    simp only [h, List.mem_singleton, Ctx.mk.injEq, Level.mk.injEq, List.cons.injEq]
    constructor
    · rintro ⟨⟨a, b⟩, c⟩; exact ⟨c, a.symm, b.symm⟩
    · rintro ⟨c, a, b⟩; exact ⟨⟨a.symm, b.symm⟩, c⟩

theorem mem_steps_later (q p : Ctx) :
    q ∈ steps .later p ↔ q.anc = p.anc ∧ (q.cur.el :: q.cur.sibs) <:+ p.cur.sibs := by
  obtain ⟨⟨qe, qs⟩, qa⟩ := q
  simp only [steps, List.mem_map]
  constructor
  · rintro ⟨⟨s, ss⟩, hm, e⟩
    injection e with a b
    injection a with a1 a2
    subst a1 a2 b
    exact ⟨rfl, (mem_splits _ _ _).1 hm⟩
  · rintro ⟨a, h⟩
    subst a
    exact ⟨(qe, qs), (mem_splits _ _ _).2 h, rfl⟩

/-- `q` is reachable from `q'` by zero or more moves of any kind: its ancestors are among those of `q'` -/
def anyRel (q' q : Ctx) : Prop := q.anc <:+ q'.anc
/-- `q` is `q'` or one of its preceding siblings -/
def sibRel (q' q : Ctx) : Prop := q.anc = q'.anc ∧ (q.cur.el :: q.cur.sibs) <:+ (q'.cur.el :: q'.cur.sibs)

def RelOK : Option Rel → Ctx → Ctx → Prop
  | none, _, _ => True
  | some .desc, q', q => anyRel q' q
  | some .child, q', q => q' = q
  | some .next, q', q => q' = q
  | some .later, q', q => sibRel q' q

theorem anyRel_refl (q : Ctx) : anyRel q q := List.suffix_refl _
theorem sibRel_refl (q : Ctx) : sibRel q q := ⟨rfl, List.suffix_refl _⟩
theorem anyRel_trans {a b c : Ctx} (h1 : anyRel a b) (h2 : anyRel b c) : anyRel a c := List.IsSuffix.trans h2 h1
theorem sibRel_trans {a b c : Ctx} (h1 : sibRel a b) (h2 : sibRel b c) : sibRel a c :=
  ⟨h2.1.trans h1.1, List.IsSuffix.trans h2.2 h1.2⟩
theorem sibRel_any {a b : Ctx} (h : sibRel a b) : anyRel a b := by
  unfold anyRel; rw [h.1]; exact List.suffix_refl _

theorem step_anyRel {r : Rel} {q q2 : Ctx} (h : q ∈ steps r q2) : anyRel q2 q := by
  unfold anyRel
  cases r with
  | desc => exact List.IsSuffix.trans (List.suffix_cons _ _) ((mem_steps_desc _ _).1 h)
  | child => rw [(mem_steps_child _ _).1 h]; exact List.suffix_cons _ _
  | next => rw [((mem_steps_next _ _).1 h).1]; exact List.suffix_refl _
  | later => rw [((mem_steps_later _ _).1 h).1]; exact List.suffix_refl _

theorem step_sibRel {cb : Comb} {q q2 : Ctx} (hcb : cb ≠ .child) (h : q ∈ steps cb.rel q2) : sibRel q2 q := by
  cases cb with
  | child => exact absurd rfl hcb
  | next =>
    obtain ⟨a, b⟩ := (mem_steps_next _ _).1 h
    exact ⟨a, by rw [b]; exact List.suffix_cons _ _⟩
  | later =>
    obtain ⟨a, b⟩ := (mem_steps_later _ _).1 h
    exact ⟨a, List.IsSuffix.trans b (List.suffix_cons _ _)⟩

/-- after a `~` in the superselector: a sibling move of the subselector lands on a preceding sibling -/
theorem later_of_sib {cb2 : Comb} {q2' q2 qD : Ctx} (hcb : cb2 ≠ .child) (hr : sibRel q2' q2)
    (h : qD ∈ steps cb2.rel q2) : qD ∈ steps .later q2' := by
  rw [mem_steps_later]
  have hs : (qD.cur.el :: qD.cur.sibs) <:+ q2.cur.sibs ∧ qD.anc = q2.anc := by
    cases cb2 with
    | child => exact absurd rfl hcb
    | next => obtain ⟨a, b⟩ := (mem_steps_next _ _).1 h; exact ⟨by rw [b]; exact List.suffix_refl _, a⟩
    | later => obtain ⟨a, b⟩ := (mem_steps_later _ _).1 h; exact ⟨b, a⟩
  refine ⟨hs.2.trans hr.1, ?_⟩
  have h1 : (qD.cur.el :: qD.cur.sibs) <:+ (q2'.cur.el :: q2'.cur.sibs) :=
    List.IsSuffix.trans hs.1 (List.IsSuffix.trans (List.suffix_cons _ _) hr.2)
  rcases List.suffix_cons_iff.1 h1 with e | h2
  · exfalso
    have l1 := hs.1.length_le
    have l2 := hr.2.length_le
    have l3 := congrArg List.length e
    simp only [List.length_cons] at l1 l2 l3
    omega
  · exact h2

/-- after a descendant combinator in the superselector -/
theorem desc_of_any {q2' q2 qD : Ctx} (hr : anyRel q2' q2)
    (h : qD ∈ steps .desc q2 ∨ qD ∈ steps .child q2) : qD ∈ steps .desc q2' := by
  rw [mem_steps_desc]
  rcases h with h | h
  · exact List.IsSuffix.trans ((mem_steps_desc _ _).1 h) hr
  · have := (mem_steps_child _ _).1 h
    unfold anyRel at hr; rw [this] at hr; exact hr


/-! ### what a skipped prefix of the subselector does to the anchor -/

theorem LX_head (d : Compound) (X : Complex) (q p : Ctx) (h : LX (.compound d :: X) q p) : mComp d q = true := by
  match X, h with
  | [], h => obtain ⟨e, hd⟩ := (LX_single _ _ _).1 h; rw [e]; exact hd
  | .comb cb :: r, h => exact ((LX_comb _ _ _ _ _).1 h).1
  | .compound c :: r, h => exact ((LX_desc _ _ _ _ _).1 h).1

/-- Skipping a prefix `sk` of the subselector: the compound `d` after it is anchored at some `qD`
    related to the anchor `q` of the prefix, and the prefix together with `d` is itself matched
    between `q` and `qD` (this is what the `parents` argument of complex.rs:170/190 stands for). -/
theorem skip_prefix (d : Compound) (brest : Complex) (p : Ctx) :
    ∀ (n : Nat) (sk : Complex) (q : Ctx), sk.length ≤ n → LX (sk ++ .compound d :: brest) q p →
      ∃ qD, LX (.compound d :: brest) qD p ∧ anyRel qD q ∧ (sibChain sk = true → sibRel qD q) ∧
        (sk = [] → qD = q) ∧ (sk ≠ [] → LX (sk ++ [.compound d]) q qD) := by
  intro n
  induction n with
  | zero =>
    intro sk q hl h
    have : sk = [] := List.eq_nil_of_length_eq_zero (Nat.le_zero.1 hl)
    subst this
    exact ⟨q, h, anyRel_refl q, fun _ => sibRel_refl q, fun _ => rfl, fun hne => absurd rfl hne⟩
  | succ n ih =>
    intro sk q hl h
    match sk, hl, h with
    | [], _, h => exact ⟨q, h, anyRel_refl q, fun _ => sibRel_refl q, fun _ => rfl, fun hne => absurd rfl hne⟩
    | .comb cb :: _, _, h => exact absurd h (LX_comb_head _ _ _ _)
    | [.compound c], _, h =>
      simp only [List.singleton_append] at h
      obtain ⟨hc, q2, hq, hl2⟩ := (LX_desc _ _ _ _ _).1 h
      refine ⟨q2, hl2, step_anyRel hq, by simp [sibChain], by simp, fun _ => ?_⟩
      exact (LX_desc _ _ _ _ _).2 ⟨hc, q2, hq, (LX_single _ _ _).2 ⟨rfl, LX_head _ _ _ _ hl2⟩⟩
    | .compound c :: .comb cb :: sk', hl, h =>
      simp only [List.cons_append] at h
      obtain ⟨hc, q2, hq, hl2⟩ := (LX_comb _ _ _ _ _).1 h
      have hlen : sk'.length ≤ n := by simp only [List.length_cons] at hl; omega
      obtain ⟨qD, h1, h2, h3, h4, h5⟩ := ih sk' q2 hlen hl2
      refine ⟨qD, h1, anyRel_trans h2 (step_anyRel hq), ?_, by simp, fun _ => ?_⟩
      · intro hs
        simp only [sibChain, Bool.and_eq_true, bne_iff_ne, ne_eq] at hs
        exact sibRel_trans (h3 hs.2) (step_sibRel hs.1 hq)
      · simp only [List.cons_append]
        refine (LX_comb _ _ _ _ _).2 ⟨hc, q2, hq, ?_⟩
        by_cases hsk : sk' = []
        · subst hsk
          have := h4 rfl
          subst this
          exact (LX_single _ _ _).2 ⟨rfl, LX_head _ _ _ _ h1⟩
        · exact h5 hsk
    | .compound c :: .compound c' :: sk', hl, h =>
      simp only [List.cons_append] at h
      obtain ⟨hc, q2, hq, hl2⟩ := (LX_desc _ _ _ _ _).1 h
      have hlen : (Component.compound c' :: sk').length ≤ n := by simp only [List.length_cons] at hl ⊢; omega
      obtain ⟨qD, h1, h2, _, _, h5⟩ := ih (.compound c' :: sk') q2 hlen (by simpa using hl2)
      refine ⟨qD, h1, anyRel_trans h2 (step_anyRel hq), by simp [sibChain], by simp, fun _ => ?_⟩
      simp only [List.cons_append]
      exact (LX_desc _ _ _ _ _).2 ⟨hc, q2, hq, by simpa using h5 (by simp)⟩

/-- what the superselector test of one compound may assume about its `parents` argument: together
    with the compound they form a complex selector matched at the same context (unless they start
    with a combinator, in which case every nested walk answers `false`) -/
def Hps (ps : Complex) (d : Compound) (q : Ctx) : Prop :=
  match ps with
  | .comb _ :: _ => True
  | _ => matchesComplex (ps ++ [.compound d]) q = true

theorem Hps_of_match (ps : Complex) (d : Compound) (q : Ctx)
    (h : matchesComplex (ps ++ [.compound d]) q = true) : Hps ps d q := by
  unfold Hps
  split
  · trivial
  · exact h

theorem Hps_of_prefix (sk : Complex) (d : Compound) (q qD : Ctx) (hd : mComp d qD = true)
    (h : sk ≠ [] → LX (sk ++ [.compound d]) q qD) : Hps (sk.drop 1) d qD := by
  match sk, h with
  | [], _ => simp [Hps, matchesComplex_iff]; exact ⟨qD, (LX_single _ _ _).2 ⟨rfl, hd⟩⟩
  | [x], _ => simp [Hps, matchesComplex_iff]; exact ⟨qD, (LX_single _ _ _).2 ⟨rfl, hd⟩⟩
  | x :: .comb cb :: r, _ => simp [Hps]
  | .comb cb :: .compound c :: r, h => exact absurd (h (by simp)) (LX_comb_head _ _ _ _)
  | .compound c0 :: .compound c :: r, h =>
    have h' := h (by simp)
    simp only [List.cons_append] at h'
    obtain ⟨_, q2, _, hl2⟩ := (LX_desc _ _ _ _ _).1 h'
    simp only [List.drop_succ_cons, List.drop_zero, Hps]
    exact (matchesComplex_iff _ _).2 ⟨q2, by simpa using hl2⟩

theorem relOK_of_skip {prev : Option Rel} {sk : Complex} {qD q : Ctx} (hok : okSkip prev sk = true)
    (h2 : anyRel qD q) (h3 : sibChain sk = true → sibRel qD q) (h4 : sk = [] → qD = q) : RelOK prev qD q := by
  cases prev with
  | none => trivial
  | some r =>
    cases r with
    | desc => exact h2
    | child => exact h4 (by simpa [okSkip] using hok)
    | next => exact h4 (by simpa [okSkip] using hok)
    | later => exact h3 (by simpa [okSkip] using hok)

/-- on a subselector that matches at all, the code's window test is the sibling-chain reading -/
theorem sibWindows_chain (d : Compound) (brest : Complex) :
    ∀ (n : Nat) (sk : Complex), sk.length ≤ n → sibWindows (sk ++ [.compound d]) = true →
      (∃ q p, LX (sk ++ .compound d :: brest) q p) → sibChain sk = true := by
  intro n
  induction n with
  | zero =>
    intro sk hl _ _
    have : sk = [] := List.eq_nil_of_length_eq_zero (Nat.le_zero.1 hl)
    subst this; rfl
  | succ n ih =>
    intro sk hl hw hlx
    match sk, hl, hw, hlx with
    | [], _, _, _ => rfl
    | .comb cb :: _, _, _, ⟨q, p, h⟩ => exact absurd h (LX_comb_head _ _ _ _)
    | [.compound c], _, hw, _ => simp [sibWindows] at hw
    | .compound c :: .compound c' :: sk', _, hw, _ => simp [sibWindows] at hw
    | .compound c :: .comb cb :: sk', hl, hw, ⟨q, p, h⟩ =>
      simp only [List.cons_append] at h hw
      obtain ⟨_, q2, _, hl2⟩ := (LX_comb _ _ _ _ _).1 h
      have hlen : sk'.length ≤ n := by simp only [List.length_cons] at hl; omega
      simp only [sibWindows, Bool.and_eq_true, bne_iff_ne, ne_eq] at hw
      have hw' : sibWindows (sk' ++ [.compound d]) = true := by
        match sk', hw.2, hl2 with
        | [], _, _ => simp [sibWindows]
        | .compound c' :: r, hw2, _ => simpa [sibWindows] using hw2
        | .comb cb' :: r, _, hl2 => exact absurd hl2 (LX_comb_head _ _ _ _)
      have := ih sk' hlen hw' ⟨q2, p, hl2⟩
      simp [sibChain, hw.1, this]

theorem okSkip_of_compat {prev : Option Rel} {sk : Complex} {d : Compound} {brest : Complex} {q p : Ctx}
    (hc : compatPrev prev (sk ++ [.compound d]) = true) (hlx : LX (sk ++ .compound d :: brest) q p) :
    okSkip prev sk = true := by
  cases prev with
  | none => rfl
  | some r =>
    cases r with
    | desc => rfl
    | child =>
      simp only [compatPrev, List.length_append, List.length_cons, List.length_nil, decide_eq_true_eq] at hc
      have : sk = [] := List.eq_nil_of_length_eq_zero (by omega)
      subst this; rfl
    | next =>
      simp only [compatPrev, List.length_append, List.length_cons, List.length_nil, decide_eq_true_eq] at hc
      have : sk = [] := List.eq_nil_of_length_eq_zero (by omega)
      subst this; rfl
    | later =>
      simp only [compatPrev, Bool.or_eq_true, decide_eq_true_eq, List.length_append, List.length_cons,
        List.length_nil] at hc
      rcases hc with hc | hc
      · have : sk = [] := List.eq_nil_of_length_eq_zero (by omega)
        subst this; rfl
      · exact sibWindows_chain d brest sk.length sk (Nat.le_refl _) hc ⟨q, p, hlx⟩

theorem okSkip_nil (prev : Option Rel) : okSkip prev [] = true := by
  cases prev with
  | none => rfl
  | some r => cases r <;> simp [okSkip, sibChain]

/-- after `>`, `+`, `~` in the superselector -/
def strictPrev (prev : Option Rel) : Prop := prev = some .child ∨ prev = some .next ∨ prev = some .later

theorem scan_spec (sup : Compound → Compound → Complex → Bool) (c1 : Compound) :
    ∀ (b sk0 sk : Complex) (d : Compound) (brest : Complex), scan sup c1 sk0 b = some (sk, d, brest) →
      ∃ sk', sk = sk0 ++ sk' ∧ b = sk' ++ .compound d :: brest ∧ sup c1 d (sk.drop 1) = true ∧ brest ≠ [] := by
  intro b
  induction b with
  | nil => intro sk0 sk d brest h; simp [scan] at h
  | cons y tl ih =>
    intro sk0 sk d brest h
    unfold scan at h
    split at h
    · cases h
    · rename_i x xs
      split at h
      · rename_i d'
        split at h
        · rename_i hs
          injection h with h; injection h with h1 h2; injection h2 with h2 h3
          subst h1 h2 h3
          exact ⟨[], by simp, by simp, hs, by simp⟩
        · obtain ⟨sk', e1, e2, e3, e4⟩ := ih _ _ _ _ h
          exact ⟨.compound d' :: sk', by simp [e1], by simp [e2], e3, e4⟩
      · rename_i c
        obtain ⟨sk', e1, e2, e3, e4⟩ := ih _ _ _ _ h
        exact ⟨.comb c :: sk', by simp [e1], by simp [e2], e3, e4⟩


/-! ### soundness of the walk (specified variant: `asFound = false`) -/

theorem getLast_split {α : Type} : ∀ (b : List α) (d : α), b.getLast? = some d → b = b.dropLast ++ [d] := by
  intro b
  induction b with
  | nil => intro d h; simp at h
  | cons x xs ih =>
    intro d h
    cases xs with
    | nil => simp at h; simp [h]
    | cons y ys =>
      have : (y :: ys).getLast? = some d := by simpa [List.getLast?_cons_cons] using h
      have := ih d this
      simp only [List.dropLast_cons_cons, List.cons_append]
      rw [← this]

theorem walk_sound (sup : Compound → Compound → Complex → Bool) (P : Compound → Prop)
    (hsup : ∀ c d ps q, P c → sup c d ps = true → mComp d q = true → Hps ps d q → mComp c q = true) :
    ∀ (n : Nat) (a : Complex) (prev : Option Rel) (b : Complex), a.length ≤ n →
      (∀ c, Component.compound c ∈ a → P c) →
      -- the `remaining1 == 3 && remaining2 > 3` guard of the previous round (complex.rs:264)
      (strictPrev prev → a.length = 1 → b.length ≤ 1) →
      walk false sup prev a b = true →
      ∀ q p, LX b q p → ∃ q', LX a q' p ∧ RelOK prev q' q := by
  intro n
  induction n with
  | zero =>
    intro a prev b hl _ _ hw
    have : a = [] := List.eq_nil_of_length_eq_zero (Nat.le_zero.1 hl)
    subst this; simp [walk] at hw
  | succ n ih =>
    intro a prev b hl hP hinv hw q p hb
    obtain ⟨c0, btl, hbe⟩ : ∃ c0 btl, b = .compound c0 :: btl := by
      match b, hb with
      | [], hb => exact absurd hb (LX_nil _ _)
      | .comb _ :: _, hb => exact absurd hb (LX_comb_head _ _ _ _)
      | .compound c0 :: btl, _ => exact ⟨c0, btl, rfl⟩
    match a, hl, hP, hinv, hw with
    | [], _, _, _, hw => simp [walk] at hw
    | .comb _ :: _, _, _, _, hw => simp [walk] at hw
    | [.compound c1], _, hP, hinv, hw =>
      unfold walk at hw
      rw [hbe] at hw
      simp only at hw
      rw [← hbe] at hw
      split at hw
      · rename_i d hlast
        have hsplit := getLast_split b _ hlast
        have hok : okSkip prev b.dropLast = true := by
          cases prev with
          | none => rfl
          | some r =>
            cases r with
            | desc => rfl
            | child =>
              have hb1 := hinv (Or.inl rfl) rfl
              have : b.dropLast = [] := List.eq_nil_of_length_eq_zero (by simp; omega)
              rw [this]; rfl
            | next =>
              have hb1 := hinv (Or.inr (Or.inl rfl)) rfl
              have : b.dropLast = [] := List.eq_nil_of_length_eq_zero (by simp; omega)
              rw [this]; rfl
            | later =>
              have hb1 := hinv (Or.inr (Or.inr rfl)) rfl
              have : b.dropLast = [] := List.eq_nil_of_length_eq_zero (by simp; omega)
              rw [this]; rfl
        rw [hsplit] at hb
        have hps : Hps b.dropLast d p := Hps_of_match _ _ _ ((matchesComplex_iff _ _).2 ⟨q, hb⟩)
        obtain ⟨qD, h1, h2, h3, h4, h5⟩ := skip_prefix d [] p _ b.dropLast q (Nat.le_refl _) hb
        obtain ⟨e, hd⟩ := (LX_single _ _ _).1 h1
        subst e
        refine ⟨qD, (LX_single _ _ _).2 ⟨rfl, hsup c1 d _ qD (hP c1 (by simp)) hw hd hps⟩, ?_⟩
        exact relOK_of_skip hok h2 h3 h4
      · cases hw
    | .compound c1 :: .comb cb1 :: a', hl, hP, _, hw =>
      unfold walk at hw
      rw [hbe] at hw
      simp only at hw
      rw [← hbe] at hw
      split at hw
      · cases hw
      · split at hw
        · cases hw
        · rename_i sk d brest hscan
          split at hw
          · cases hw
          · rename_i hok
            have hcomp : compatPrev prev (sk ++ [.compound d]) = true := by simpa using hok
            obtain ⟨sk', e1, e2, e3, e4⟩ := scan_spec sup c1 b [] sk d brest hscan
            simp only [List.nil_append] at e1; subst e1
            split at hw
            · rename_i cb2 brest'
              split at hw
              · cases hw
              · rename_i hcompat
                split at hw
                · cases hw
                · rename_i hguard
                  have hinv' : strictPrev (some cb1.rel) → a'.length = 1 → brest'.length ≤ 1 := by
                    intro _ ha1
                    have hlen2 := congrArg List.length e2
                    simp only [List.length_append, List.length_cons] at hlen2
                    have : ¬ (b.length > 3) := by
                      intro hgt; apply hguard; simp [ha1, hgt]
                    omega
                  rw [e2] at hb
                  have hok := okSkip_of_compat hcomp hb
                  obtain ⟨qD, h1, h2, h3, h4, h5⟩ := skip_prefix d _ p _ sk q (Nat.le_refl _) hb
                  obtain ⟨hd, q2, hq2, hrest⟩ := (LX_comb _ _ _ _ _).1 h1
                  have hlen : a'.length ≤ n := by simp only [List.length_cons] at hl; omega
                  obtain ⟨q2', hl', hrel⟩ := ih a' (some cb1.rel) brest' hlen
                    (fun c hc => hP c (by simp [hc])) hinv' hw q2 p hrest
                  refine ⟨qD, (LX_comb _ _ _ _ _).2 ⟨hsup c1 d _ qD (hP c1 (by simp)) e3 hd (Hps_of_prefix sk d q qD hd h5), q2', ?_, hl'⟩,
                    relOK_of_skip hok h2 h3 h4⟩
                  cases cb1 with
                  | child =>
                    simp only [Comb.rel, RelOK] at hrel ⊢
                    subst hrel
                    cases cb2 <;> simp [combClash] at hcompat
                    exact hq2
                  | next =>
                    simp only [Comb.rel, RelOK] at hrel ⊢
                    subst hrel
                    cases cb2 <;> simp [combClash] at hcompat
                    exact hq2
                  | later =>
                    simp only [Comb.rel, RelOK] at hrel ⊢
                    have : cb2 ≠ .child := by
                      intro e; subst e; simp [combClash] at hcompat
                    exact later_of_sib this hrel hq2
            · cases hw
    | .compound c1 :: .compound c2 :: a'', hl, hP, _, hw =>
      unfold walk at hw
      rw [hbe] at hw
      simp only at hw
      rw [← hbe] at hw
      split at hw
      · cases hw
      · split at hw
        · cases hw
        · rename_i sk d brest hscan
          split at hw
          · cases hw
          · rename_i hok
            have hcomp : compatPrev prev (sk ++ [.compound d]) = true := by simpa using hok
            obtain ⟨sk', e1, e2, e3, e4⟩ := scan_spec sup c1 b [] sk d brest hscan
            simp only [List.nil_append] at e1; subst e1
            rw [e2] at hb
            have hok := okSkip_of_compat hcomp hb
            have hnd : ∀ (x y : Complex), strictPrev (some Rel.desc) → x.length = 1 → y.length ≤ 1 := by
              intro _ _ h; rcases h with h | h | h <;> cases h
            obtain ⟨qD, h1, h2, h3, h4, h5⟩ := skip_prefix d _ p _ sk q (Nat.le_refl _) hb
            have hlen : (Component.compound c2 :: a'').length ≤ n := by
              simp only [List.length_cons] at hl ⊢; omega
            have hP' : ∀ c, Component.compound c ∈ (Component.compound c2 :: a'') → P c :=
              fun c hc => hP c (List.mem_cons_of_mem _ hc)
            split at hw
            · rename_i cb2 brest'
              split at hw
              · cases hw
              · rename_i hcb
                have hcb : cb2 = .child := by simpa using hcb
                subst hcb
                obtain ⟨hd, q2, hq2, hrest⟩ := (LX_comb _ _ _ _ _).1 h1
                obtain ⟨q2', hl', hrel⟩ := ih _ (some .desc) brest' hlen hP' (hnd _ _) hw q2 p hrest
                exact ⟨qD, (LX_desc _ _ _ _ _).2 ⟨hsup c1 d _ qD (hP c1 (by simp)) e3 hd (Hps_of_prefix sk d q qD hd h5), q2',
                  desc_of_any hrel (Or.inr hq2), hl'⟩, relOK_of_skip hok h2 h3 h4⟩
            · rename_i hnc
              match brest, e4, hnc, h1, hw with
              | [], e4, _, _, _ => exact absurd rfl e4
              | .comb cb :: r, _, hnc, _, _ => exact absurd rfl (hnc cb r)
              | .compound e :: r, _, _, h1, hw =>
                obtain ⟨hd, q2, hq2, hrest⟩ := (LX_desc _ _ _ _ _).1 h1
                obtain ⟨q2', hl', hrel⟩ := ih _ (some .desc) _ hlen hP' (hnd _ _) hw q2 p hrest
                exact ⟨qD, (LX_desc _ _ _ _ _).2 ⟨hsup c1 d _ qD (hP c1 (by simp)) e3 hd (Hps_of_prefix sk d q qD hd h5), q2',
                  desc_of_any hrel (Or.inl hq2), hl'⟩, relOK_of_skip hok h2 h3 h4⟩

/-! ### reflexivity -/

theorem superCompound0_refl (A : Compound) : superCompound0 A A = true := by
  have h : ∀ s, s ∈ A → simpleSuperOfCompound s A = true := by
    intro s hs
    unfold simpleSuperOfCompound
    rw [List.any_eq_true]
    exact ⟨s, hs, by simp⟩
  unfold superCompound0
  simp only [Bool.and_eq_true, List.all_eq_true]
  refine ⟨h, ?_⟩
  intro t ht
  cases t <;> simp
  exact h _ ht

theorem superCompound_eq0 (f : Nat) (af : Bool) (A B : Compound) (ps : Complex) (h : noSelC A = true) :
    superCompound (f + 1) af A B ps = superCompound0 A B := by
  unfold superCompound superCompound0
  congr 1
  rw [Bool.eq_iff_iff]
  simp only [List.all_eq_true]
  constructor <;> intro hh s hs <;> have h1 := hh s hs <;> have h2 := (List.all_eq_true.1 h) s hs <;>
    cases s <;> simp_all [Simple.isSel]

theorem compatPrev_single (prev : Option Rel) (c : Compound) : compatPrev prev [.compound c] = true := by
  cases prev with
  | none => rfl
  | some r => cases r <;> simp [compatPrev]

theorem combClash_self (cb : Comb) : combClash cb cb = false := by cases cb <;> simp [combClash]

theorem walk_refl (af : Bool) (sup : Compound → Compound → Complex → Bool) :
    ∀ (n : Nat) (a : Complex) (prev : Option Rel), a.length ≤ n → (fwd a).isSome = true →
      (∀ c, Component.compound c ∈ a → ∀ ps, sup c c ps = true) → walk af sup prev a a = true := by
  intro n
  induction n with
  | zero =>
    intro a prev hl hf
    have : a = [] := List.eq_nil_of_length_eq_zero (Nat.le_zero.1 hl)
    subst this; simp [fwd] at hf
  | succ n ih =>
    intro a prev hl hf hs
    match a, hl, hf, hs with
    | [], _, hf, _ => simp [fwd] at hf
    | .comb _ :: _, _, hf, _ => simp [fwd] at hf
    | [.compound c], _, _, hs =>
      unfold walk
      simp [hs c (by simp)]
    | .compound c :: .comb cb :: a', hl, hf, hs =>
      have hf' : (fwd a').isSome = true := by
        simp only [fwd] at hf
        cases h : fwd a' <;> simp_all
      obtain ⟨x, xs, hx⟩ : ∃ x xs, a' = x :: xs := by
        cases a' with
        | nil => simp [fwd] at hf'
        | cons x xs => exact ⟨x, xs, rfl⟩
      have hlen : a'.length ≤ n := by simp only [List.length_cons] at hl; omega
      have hrec := ih a' (some cb.rel) hlen hf' (fun c hc => hs c (by simp [hc]))
      unfold walk
      simp only [List.length_cons, scan, hs c (by simp), if_true]
      simp [compatPrev_single, combClash_self, hrec]
      omega
    | .compound c :: .compound c2 :: a'', hl, hf, hs =>
      have hf' : (fwd (.compound c2 :: a'')).isSome = true := by
        simp only [fwd] at hf
        cases h : fwd (.compound c2 :: a'') <;> simp_all
      have hlen : (Component.compound c2 :: a'').length ≤ n := by simp only [List.length_cons] at hl ⊢; omega
      have hrec := ih _ (some .desc) hlen hf' (fun c' hc => hs c' (List.mem_cons_of_mem _ hc))
      unfold walk
      simp only [List.length_cons, scan, hs c (by simp), if_true]
      simp [compatPrev_single, hrec]

theorem fwd_last (A : Complex) : (fwd A).isSome = true → ∃ c, A.getLast? = some (.compound c) := by
  fun_induction fwd A with
  | case1 => simp
  | case2 c => intro _; exact ⟨c, rfl⟩
  | case3 c cb rest d ds h ih =>
    intro _
    obtain ⟨c', hc'⟩ := ih (by simp [h])
    refine ⟨c', ?_⟩
    cases rest with
    | nil => simp at hc'
    | cons x xs => simpa [List.getLast?_cons_cons] using hc'
  | case4 c cb rest h ih => simp
  | case5 c d rest d' ds h ih =>
    intro _
    obtain ⟨c', hc'⟩ := ih (by simp [h])
    exact ⟨c', by simpa [List.getLast?_cons_cons] using hc'⟩
  | case6 c d rest h ih => simp
  | case7 => simp

theorem lastIsComb_of_fwd (A : Complex) (h : (fwd A).isSome = true) : lastIsComb A = false := by
  obtain ⟨c, hc⟩ := fwd_last A h
  simp [lastIsComb, hc]

end Grass.Selector
