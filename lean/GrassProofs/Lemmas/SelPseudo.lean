import Grass.Selector
import GrassProofs.Lemmas.SelSem
import GrassProofs.Lemmas.SelWalk
/-
  Soundness of the superselector test with selector pseudos on the LEFT
  (`Pseudo::is_super_selector`, simple.rs:493): `:not(..)` and the `:is/:where/:matches/:any` family.
  Mutual induction on the fuel of `superCompound / superPseudo / superComplex / superList`.
-/
namespace Grass.Selector

/-! ### `toComps` is inverted by `norm` -/

/-- the forward normal form obtained by walking the right-to-left steps -/
def fwdFold : RSteps → Compound × List (Rel × Compound) → Compound × List (Rel × Compound)
  | [], acc => acc
  | (r, c) :: rest, (d, ds) => fwdFold rest (c, (r, d) :: ds)

theorem fwd_cons_rel (c : Compound) (r : Rel) (acc : Complex) (d : Compound) (ds : List (Rel × Compound))
    (h : fwd acc = some (d, ds)) : fwd (.compound c :: relComps r ++ acc) = some (c, (r, d) :: ds) := by
  cases r with
  | desc =>
    simp only [relComps, List.nil_append]
    cases acc with
    | nil => simp [fwd] at h
    | cons x xs =>
      cases x with
      | comb cb => simp [fwd] at h
      | compound d' =>
        show fwd (Component.compound c :: Component.compound d' :: xs) = _
        simp only [fwd, h]
  | child => simp [relComps, fwd, h, Comb.rel]
  | next => simp [relComps, fwd, h, Comb.rel]
  | later => simp [relComps, fwd, h, Comb.rel]

theorem fwd_stepsToComps : ∀ (st : RSteps) (acc : Complex) (d : Compound) (ds : List (Rel × Compound)),
    fwd acc = some (d, ds) → fwd (stepsToComps st acc) = some (fwdFold st (d, ds)) := by
  intro st
  induction st with
  | nil => intro acc d ds h; simpa [stepsToComps, fwdFold] using h
  | cons x rest ih =>
    intro acc d ds h
    obtain ⟨r, c⟩ := x
    simp only [stepsToComps, fwdFold]
    exact ih _ c ((r, d) :: ds) (fwd_cons_rel c r acc d ds h)

theorem revGo_fwdFold : ∀ (st : RSteps) (d : Compound) (ds : List (Rel × Compound)) (acc : RSteps),
    revGo (fwdFold st (d, ds)).1 acc (fwdFold st (d, ds)).2 = revGo d (st ++ acc) ds := by
  intro st
  induction st with
  | nil => intro d ds acc; simp [fwdFold]
  | cons x rest ih =>
    intro d ds acc
    obtain ⟨r, c⟩ := x
    simp only [fwdFold]
    rw [ih c ((r, d) :: ds) acc]
    simp [revGo]

theorem norm_toComps (r : RComplex) : norm r.toComps = some r := by
  obtain ⟨t, st⟩ := r
  unfold norm RComplex.toComps
  simp only
  rw [fwd_stepsToComps st [.compound t] t [] (by simp [fwd])]
  simp only
  have := revGo_fwdFold st t [] []
  rw [this]
  simp [revGo]

theorem matchesComplex_toComps (r : RComplex) (p : Ctx) : matchesComplex r.toComps p = mRC r p := by
  simp [matchesComplex, norm_toComps]

end Grass.Selector
