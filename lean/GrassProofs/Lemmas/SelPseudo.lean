import Grass.Selector
import GrassProofs.Lemmas.SelSem
import GrassProofs.Lemmas.SelWalk
/-
  Soundness of the superselector test with selector pseudos on the LEFT
  (`Pseudo::is_super_selector`, simple.rs:493): `:not(..)` and the `:is/:where/:matches/:any` family.
  Mutual induction on the fuel of `superCompound / superPseudo / superComplex / superList`.
-/
namespace Grass.Selector

/-! ### `toComps` is inverted by `norm` -/

/-- the forward normal form obtained by walking the right-to-left steps -/
def fwdFold : RSteps → Compound × List (Rel × Compound) → Compound × List (Rel × Compound)
  | [], acc => acc
  | (r, c) :: rest, (d, ds) => fwdFold rest (c, (r, d) :: ds)

theorem fwd_cons_rel (c : Compound) (r : Rel) (acc : Complex) (d : Compound) (ds : List (Rel × Compound))
    (h : fwd acc = some (d, ds)) : fwd (.compound c :: relComps r ++ acc) = some (c, (r, d) :: ds) := by
  cases r with
  | desc =>
    simp only [relComps, List.nil_append]
    cases acc with
    | nil => simp [fwd] at h
    | cons x xs =>
      cases x with
      | comb cb => simp [fwd] at h
      | compound d' =>
        show fwd (Component.compound c :: Component.compound d' :: xs) = _
        simp only [fwd, h]
  | child => simp [relComps, fwd, h, Comb.rel]
  | next => simp [relComps, fwd, h, Comb.rel]
  | later => simp [relComps, fwd, h, Comb.rel]

theorem fwd_stepsToComps : ∀ (st : RSteps) (acc : Complex) (d : Compound) (ds : List (Rel × Compound)),
    fwd acc = some (d, ds) → fwd (stepsToComps st acc) = some (fwdFold st (d, ds)) := by
  intro st
  induction st with
  | nil => intro acc d ds h; simpa [stepsToComps, fwdFold] using h
  | cons x rest ih =>
    intro acc d ds h
    obtain ⟨r, c⟩ := x
    simp only [stepsToComps, fwdFold]
    exact ih _ c ((r, d) :: ds) (fwd_cons_rel c r acc d ds h)

theorem revGo_fwdFold : ∀ (st : RSteps) (d : Compound) (ds : List (Rel × Compound)) (acc : RSteps),
    revGo (fwdFold st (d, ds)).1 acc (fwdFold st (d, ds)).2 = revGo d (st ++ acc) ds := by
  intro st
  induction st with
  | nil => intro d ds acc; simp [fwdFold]
  | cons x rest ih =>
    intro d ds acc
    obtain ⟨r, c⟩ := x
    simp only [fwdFold]
    rw [ih c ((r, d) :: ds) acc]
    simp [revGo]

theorem norm_toComps (r : RComplex) : norm r.toComps = some r := by
  obtain ⟨t, st⟩ := r
  unfold norm RComplex.toComps
  simp only
  rw [fwd_stepsToComps st [.compound t] t [] (by simp [fwd])]
  simp only
  have := revGo_fwdFold st t [] []
  rw [this]
  simp [revGo]

theorem matchesComplex_toComps (r : RComplex) (p : Ctx) : matchesComplex r.toComps p = mRC r p := by
  simp [matchesComplex, norm_toComps]


/-! ### walks against a subselector that starts with a combinator answer `false` -/

theorem walk_comb_head (af : Bool) (sup : Compound → Compound → Complex → Bool) (prev : Option Rel)
    (a : Complex) (cb : Comb) (X : Complex) : walk af sup prev a (.comb cb :: X) = false := by
  unfold walk
  split
  · rfl
  · rfl
  · rfl
  · split <;> rfl
  · split <;> rfl

theorem superComplex_comb_head (f : Nat) (af : Bool) (A : Complex) (cb : Comb) (X : Complex) :
    superComplex f af A (.comb cb :: X) = false := by
  cases f with
  | zero => rfl
  | succ f =>
    unfold superComplex
    split
    · rfl
    · exact walk_comb_head _ _ _ _ _ _

theorem matchesList_toComps (l : List RComplex) (q : Ctx) :
    matchesList (l.map RComplex.toComps) q = mArgs l q := by
  rw [mArgs_eq_any]
  simp only [matchesList, List.any_map, Function.comp_def, matchesComplex_toComps, mRC]

/-! ### the four levels, by induction on the fuel -/

def CompoundSound (f : Nat) : Prop :=
  ∀ (A B : Compound) (ps : Complex) (q : Ctx), superCompound f false A B ps = true → mComp B q = true →
    Hps ps B q → mComp A q = true
def PseudoSound (f : Nat) : Prop :=
  ∀ (k : PName) (arg : List RComplex) (B : Compound) (ps : Complex) (q : Ctx),
    superPseudo f false k arg B ps = true → mComp B q = true → Hps ps B q → mSimple (.sel k arg) q = true
def ComplexSound (f : Nat) : Prop :=
  ∀ (A B : Complex) (p : Ctx), superComplex f false A B = true → matchesComplex B p = true →
    matchesComplex A p = true
def ListSound (f : Nat) : Prop :=
  ∀ (L1 L2 : SelList) (p : Ctx), superList f false L1 L2 = true → matchesList L2 p = true →
    matchesList L1 p = true

theorem compoundSound_succ (f : Nat) (hp : PseudoSound f) : CompoundSound (f + 1) := by
  intro A B ps q h hB hps
  unfold superCompound at h
  simp only [Bool.and_eq_true, List.all_eq_true] at h
  rw [mComp_eq_all, List.all_eq_true]
  intro s hs
  have := h.1 s hs
  cases s with
  | sel k arg => exact hp k arg B ps q this hB hps
  | univ => exact simpleSuperOfCompound_sound _ B q this hB
  | type n => exact simpleSuperOfCompound_sound _ B q this hB
  | cls n => exact simpleSuperOfCompound_sound _ B q this hB
  | id n => exact simpleSuperOfCompound_sound _ B q this hB
  | attr n v => exact simpleSuperOfCompound_sound _ B q this hB
  | pclass n => exact simpleSuperOfCompound_sound _ B q this hB
  | pelem n => exact simpleSuperOfCompound_sound _ B q this hB
  | placeholder n => exact simpleSuperOfCompound_sound _ B q this hB
  | parent x => exact simpleSuperOfCompound_sound _ B q this hB

theorem listSound_succ (f : Nat) (hc : ComplexSound f) : ListSound (f + 1) := by
  intro L1 L2 p h hB
  unfold superList at h
  unfold matchesList at hB ⊢
  rw [List.any_eq_true] at hB ⊢
  obtain ⟨c1, hc1, hm⟩ := hB
  have := (List.all_eq_true.1 h) c1 hc1
  rw [List.any_eq_true] at this
  obtain ⟨c2, hc2, hs⟩ := this
  exact ⟨c2, hc2, hc c2 c1 p hs hm⟩

theorem complexSound_succ (f : Nat) (hc : CompoundSound f) : ComplexSound (f + 1) := by
  intro A B p h hB
  unfold superComplex at h
  split at h
  · cases h
  · obtain ⟨q, hq⟩ := (matchesComplex_iff B p).1 hB
    obtain ⟨q', hq', _⟩ := walk_sound (fun c d ps => superCompound f false c d ps) (fun _ => True)
      (fun c d ps q _ hs hd hps => hc c d ps q hs hd hps) A.length A none B (Nat.le_refl _)
      (fun _ _ => trivial) (by intro hs; rcases hs with hs | hs | hs <;> cases hs) h q p hq
    exact (matchesComplex_iff A p).2 ⟨q', hq'⟩

theorem type_not_both {n m : Name} {q : Ctx} (h1 : mSimple (.type n) q = true) (h2 : mSimple (.type m) q = true) :
    n = m := by
  simp only [mSimple, decide_eq_true_eq] at h1 h2
  rw [← h1, ← h2]

theorem id_not_both {n m : Name} {q : Ctx} (h1 : mSimple (.id n) q = true) (h2 : mSimple (.id m) q = true) :
    n = m := by
  simp only [mSimple, decide_eq_true_eq] at h1 h2
  rw [h1] at h2; injection h2

theorem pseudoSound_succ (f : Nat) (hc : ComplexSound f) (hl : ListSound f) : PseudoSound (f + 1) := by
  intro k arg B ps q h hB hps
  unfold superPseudo at h
  -- the `is` family: one proof for the four names
  have isFam : k ≠ .not →
      ((B.any fun t => match t with
          | .sel k2 arg2 => (k2 == k) && superList f false (arg.map RComplex.toComps) (arg2.map RComplex.toComps)
          | _ => false) ||
        arg.any fun c1 => superComplex f false c1.toComps (ps ++ [.compound B])) = true →
      mArgs arg q = true := by
    intro hk hh
    rw [Bool.or_eq_true] at hh
    rcases hh with hh | hh
    · rw [List.any_eq_true] at hh
      obtain ⟨t, ht, hm⟩ := hh
      cases t with
      | sel k2 arg2 =>
        simp only [Bool.and_eq_true, beq_iff_eq] at hm
        obtain ⟨hk2, hsl⟩ := hm
        subst hk2
        have ht' := mComp_mem hB ht
        have h2 : mArgs arg2 q = true := by
          cases k2 <;> simp_all [mSimple]
        rw [← matchesList_toComps] at h2 ⊢
        exact hl _ _ q hsl h2
      | _ => simp at hm
    · rw [List.any_eq_true] at hh
      obtain ⟨c1, hc1, hs⟩ := hh
      have hmatch : matchesComplex (ps ++ [.compound B]) q = true := by
        unfold Hps at hps
        split at hps
        · rename_i cb X
          simp only [List.cons_append] at hs
          rw [superComplex_comb_head] at hs; cases hs
        · exact hps
      have := hc _ _ q hs hmatch
      rw [matchesComplex_toComps] at this
      rw [mArgs_eq_any, List.any_eq_true]
      exact ⟨c1, hc1, by simpa [mRC] using this⟩
  cases k with
  | not =>
    simp only at h
    simp only [mSimple]
    cases hm : mArgs arg q with
    | false => rfl
    | true =>
      exfalso
      rw [mArgs_eq_any, List.any_eq_true] at hm
      obtain ⟨r, hr, hrm⟩ := hm
      have hrc : mRC r q = true := by simpa [mRC] using hrm
      have := (List.all_eq_true.1 h) r hr
      rw [List.any_eq_true] at this
      obtain ⟨t, ht, hcond⟩ := this
      have ht' := mComp_mem hB ht
      simp only [Bool.and_eq_true] at hrm
      cases t with
      | type n =>
        simp only at hcond
        rw [List.any_eq_true] at hcond
        obtain ⟨s1, hs1, hc1⟩ := hcond
        simp only [Bool.and_eq_true, decide_eq_true_eq] at hc1
        have hs1m := mComp_mem hrm.1 hs1
        cases s1 <;> simp [Simple.isType] at hc1
        rename_i m
        exact hc1 (by rw [type_not_both hs1m ht'])
      | id n =>
        simp only at hcond
        rw [List.any_eq_true] at hcond
        obtain ⟨s1, hs1, hc1⟩ := hcond
        simp only [Bool.and_eq_true, decide_eq_true_eq] at hc1
        have hs1m := mComp_mem hrm.1 hs1
        cases s1 <;> simp [Simple.isId] at hc1
        rename_i m
        exact hc1 (by rw [id_not_both hs1m ht'])
      | sel k2 arg2 =>
        simp only [Bool.and_eq_true, beq_iff_eq] at hcond
        obtain ⟨hk2, hsl⟩ := hcond
        subst hk2
        have hml : matchesList [r.toComps] q = true := by
          simp [matchesList, matchesComplex_toComps, hrc]
        have := hl _ _ q hsl hml
        rw [matchesList_toComps] at this
        simp [mSimple, this] at ht'
      | univ => simp at hcond
      | cls n => simp at hcond
      | attr n v => simp at hcond
      | pclass n => simp at hcond
      | pelem n => simp at hcond
      | placeholder n => simp at hcond
      | parent x => simp at hcond
  | is => simp only at h; simp only [mSimple]; exact isFam (by decide) h
  | where_ => simp only at h; simp only [mSimple]; exact isFam (by decide) h
  | «matches» => simp only at h; simp only [mSimple]; exact isFam (by decide) h
  | any => simp only at h; simp only [mSimple]; exact isFam (by decide) h

theorem sound_all : ∀ (f : Nat), CompoundSound f ∧ PseudoSound f ∧ ComplexSound f ∧ ListSound f := by
  intro f
  induction f with
  | zero =>
    refine ⟨?_, ?_, ?_, ?_⟩
    · intro A B ps q h; simp [superCompound] at h
    · intro k arg B ps q h; simp [superPseudo] at h
    · intro A B p h; simp [superComplex] at h
    · intro L1 L2 p h; simp [superList] at h
  | succ f ih =>
    obtain ⟨h1, h2, h3, h4⟩ := ih
    exact ⟨compoundSound_succ f h2, pseudoSound_succ f h3 h4, complexSound_succ f h1, listSound_succ f h3⟩

end Grass.Selector
