import Grass.Extend
import GrassProofs.Lemmas.ExtComplex
/-
  Crediting a class to the elements matched by a compound = plain matching in the context where those
  elements carry the class.  Used for two successive @extends (C10_extend_two_step).
-/
namespace Grass.Extend
open Grass.Selector

def elemOnly (el : Elem) : Ctx := ⟨⟨el, []⟩, []⟩

/-- give class `n` to an element matched by `F` -/
def addCls (F : Compound) (n : Name) (el : Elem) : Elem :=
  if mComp F (elemOnly el) then { el with classes := n :: el.classes } else el

def tauL (g : Elem → Elem) (l : Level) : Level := ⟨g l.el, l.sibs.map g⟩
def tau (g : Elem → Elem) (p : Ctx) : Ctx := ⟨tauL g p.cur, p.anc.map (tauL g)⟩

theorem mSimple_local (s : Simple) (p : Ctx) (h : s.isSel = false) : mSimple s p = mSimple s (elemOnly p.cur.el) := by
  cases s with
  | sel k a => simp [Simple.isSel] at h
  | attr n v => cases v <;> rfl
  | _ => rfl

theorem mComp_local : ∀ (c : Compound) (p : Ctx), noSelC c = true → mComp c p = mComp c (elemOnly p.cur.el) := by
  intro c
  induction c with
  | nil => intro p _; simp [mComp]
  | cons s ss ih =>
    intro p h
    simp only [noSelC, List.all_cons, Bool.and_eq_true, Bool.not_eq_true'] at h
    simp only [mComp]
    rw [mSimple_local s p h.1, ih p (by simpa [noSelC] using h.2)]

theorem mSimple_tau (F : Compound) (n : Name) (hF : noSelC F = true) (s : Simple) (p : Ctx) (h : s.isSel = false) :
    mSimple s (tau (addCls F n) p) = (mSimple s p || (decide (s = .cls n) && mComp F p)) := by
  have hloc := mComp_local F p hF
  cases s with
  | sel k a => simp [Simple.isSel] at h
  | cls m =>
    simp only [mSimple, tau, tauL, addCls]
    rw [hloc]
    by_cases hm : mComp F (elemOnly p.cur.el) = true
    · simp only [hm, if_true, List.contains_cons, Bool.and_true]
      by_cases e : m = n
      · subst e; simp
      · have : (Simple.cls m = Simple.cls n) = False := by simp [e]
        simp [e, this]
    · simp [hm]
  | attr a v =>
    have hat : (tau (addCls F n) p).cur.el.attrs = p.cur.el.attrs := by
      simp only [tau, tauL, addCls]; split <;> rfl
    cases v <;> simp [mSimple, hat]
  | univ => simp [mSimple]
  | type a => simp only [mSimple, tau, tauL, addCls]; split <;> simp
  | id a => simp only [mSimple, tau, tauL, addCls]; split <;> simp
  | pclass a => simp only [mSimple, tau, tauL, addCls]; split <;> simp
  | pelem a => simp only [mSimple, tau, tauL, addCls]; split <;> simp
  | placeholder a => simp [mSimple]
  | parent a => simp [mSimple]

theorem splits_map {α β : Type} (g : α → β) : ∀ (l : List α),
    splits (l.map g) = (splits l).map fun xt => (g xt.1, xt.2.map g) := by
  intro l
  induction l with
  | nil => rfl
  | cons x xs ih => simp [splits, ih]

theorem steps_tau (g : Elem → Elem) (r : Rel) (p : Ctx) : steps r (tau g p) = (steps r p).map (tau g) := by
  obtain ⟨⟨el, sibs⟩, anc⟩ := p
  cases r with
  | child => cases anc <;> simp [steps, tau, tauL]
  | desc => simp [steps, tau, tauL, splits_map, List.map_map, Function.comp_def]
  | next => cases sibs <;> simp [steps, tau, tauL]
  | later => simp [steps, tau, tauL, splits_map, List.map_map, Function.comp_def]

theorem GLX_tau (g : Elem → Elem) (mc : Compound → Ctx → Bool) :
    ∀ (X : Complex) (q' p : Ctx),
      GLX mc X q' (tau g p) ↔ ∃ q, q' = tau g q ∧ GLX (fun c q => mc c (tau g q)) X q p := by
  intro X
  fun_induction fwd X with
  | case1 => intro q' p; simp [GLX]
  | case2 c =>
    intro q' p
    simp only [GLX]
    constructor
    · rintro ⟨e, h⟩; exact ⟨p, e, rfl, h⟩
    · rintro ⟨q, e, rfl, h⟩; exact ⟨e, h⟩
  | case3 c cb rest d ds _ ih =>
    intro q' p
    simp only [GLX]
    constructor
    · rintro ⟨hc, q2', hq, hrest⟩
      obtain ⟨q2, e2, hr2⟩ := (ih q2' p).1 hrest
      subst e2
      rw [steps_tau, List.mem_map] at hq
      obtain ⟨q, hq1, rfl⟩ := hq
      exact ⟨q, rfl, hc, q2, hq1, hr2⟩
    · rintro ⟨q, rfl, hc, q2, hq1, hr2⟩
      exact ⟨hc, tau g q2, by rw [steps_tau]; exact List.mem_map.2 ⟨q, hq1, rfl⟩, (ih _ p).2 ⟨q2, rfl, hr2⟩⟩
  | case4 c cb rest _ ih =>
    intro q' p
    simp only [GLX]
    constructor
    · rintro ⟨hc, q2', hq, hrest⟩
      obtain ⟨q2, e2, hr2⟩ := (ih q2' p).1 hrest
      subst e2
      rw [steps_tau, List.mem_map] at hq
      obtain ⟨q, hq1, rfl⟩ := hq
      exact ⟨q, rfl, hc, q2, hq1, hr2⟩
    · rintro ⟨q, rfl, hc, q2, hq1, hr2⟩
      exact ⟨hc, tau g q2, by rw [steps_tau]; exact List.mem_map.2 ⟨q, hq1, rfl⟩, (ih _ p).2 ⟨q2, rfl, hr2⟩⟩
  | case5 c d rest d' ds _ ih =>
    intro q' p
    simp only [GLX]
    constructor
    · rintro ⟨hc, q2', hq, hrest⟩
      obtain ⟨q2, e2, hr2⟩ := (ih q2' p).1 hrest
      subst e2
      rw [steps_tau, List.mem_map] at hq
      obtain ⟨q, hq1, rfl⟩ := hq
      exact ⟨q, rfl, hc, q2, hq1, hr2⟩
    · rintro ⟨q, rfl, hc, q2, hq1, hr2⟩
      exact ⟨hc, tau g q2, by rw [steps_tau]; exact List.mem_map.2 ⟨q, hq1, rfl⟩, (ih _ p).2 ⟨q2, rfl, hr2⟩⟩
  | case6 c d rest _ ih =>
    intro q' p
    simp only [GLX]
    constructor
    · rintro ⟨hc, q2', hq, hrest⟩
      obtain ⟨q2, e2, hr2⟩ := (ih q2' p).1 hrest
      subst e2
      rw [steps_tau, List.mem_map] at hq
      obtain ⟨q, hq1, rfl⟩ := hq
      exact ⟨q, rfl, hc, q2, hq1, hr2⟩
    · rintro ⟨q, rfl, hc, q2, hq1, hr2⟩
      exact ⟨hc, tau g q2, by rw [steps_tau]; exact List.mem_map.2 ⟨q, hq1, rfl⟩, (ih _ p).2 ⟨q2, rfl, hr2⟩⟩
  | case7 => intro q' p; simp [GLX]

end Grass.Extend
