import GrassProofs.Lemmas.ColorConv
/-
  Helper lemmas for C15: the algebra of rgb → hsl → rgb (`as_hsla` then `from_hsla`) over the six
  orderings of max/min, in exact rationals.  `rgbToHslE` is `rgbToHsl` with exact comparisons; the
  bridge to the fuzzy comparisons of the code (on k/255 inputs) is in GrassProofs/C15.lean.
-/
namespace Grass.Color

/-- `rgbToHsl` with exact comparisons. -/
def rgbToHslE (red green blue : Rat) : Rat × Rat × Rat :=
  let mn := min3 red green blue; let mx := max3 red green blue
  let lightness := (mn + mx) / 2
  let saturation :=
    if mn = mx then 0
    else (mx - mn) / (if mx + mn > 1 then 2 - (mx + mn) else mx + mn)
  let hue :=
    if mn = mx then 0
    else if blue = mx then 4 + (red - green) / (mx - mn)
    else if green = mx then 2 + (blue - red) / (mx - mn)
    else (green - blue) / (mx - mn)
  let hue := if hue < 0 then hue + 360 else hue
  let hue := hue * 60
  (sassMod hue 360, saturation, lightness)

theorem div_le_one' {d q : Rat} (hq : 0 < q) (h : d ≤ q) : d / q ≤ 1 := by
  rw [Rat.div_def]
  have i0 : 0 ≤ q⁻¹ := Rat.le_of_lt (Rat.inv_pos.mpr hq)
  have := Rat.mul_le_mul_of_nonneg_right h i0
  have e : q * q⁻¹ = 1 := by grind
  grind

/-- m1/m2 of `from_hsla` recover min and max. -/
theorem m1m2_recover {mn mx : Rat} (h0 : 0 ≤ mn) (h1 : mx ≤ 1) (hlt : mn < mx) :
    let s := (mx - mn) / (if mx + mn > 1 then 2 - (mx + mn) else mx + mn)
    let l := (mn + mx) / 2
    let ss := clamp s 0 1
    let sl := clamp l 0 1
    let m2 := if sl ≤ 1/2 then sl * (ss + 1) else sl * (-ss) + (sl + ss)
    let m1 := sl * 2 + (-m2)
    m1 = mn ∧ m2 = mx := by
  intro s l ss sl m2 m1
  have hl : sl = l := clamp_id (by grind) (by grind)
  have hs : ss = s := by
    apply clamp_id
    · simp only [s]; split <;> apply div_nonneg' <;> grind
    · simp only [s]; split <;> apply div_le_one' <;> grind
  simp only [m1, m2, hl, hs, s, l]
  split <;> split <;> constructor <;> grind



theorem hue_norm {hq : Rat} (h0 : -1 ≤ hq) (h1 : hq < 6) :
    sassMod ((if hq < 0 then hq + 360 else hq) * 60) 360 = if hq < 0 then hq * 60 + 360 else hq * 60 := by
  split
  · unfold sassMod
    have : (((hq + 360) * 60) / 360).floor = 59 := by
      apply floor_eq <;> (try simp) <;> grind
    rw [this]; simp; grind
  · exact sassMod_id (by grind) (by grind)


theorem hueToRgb_seg1 {m1 m2 u : Rat} (h0 : 0 ≤ u) (h1 : u < 1/6) : hueToRgb m1 m2 u = ((m2 - m1) * u) * 6 + m1 := by
  unfold hueToRgb; grind
theorem hueToRgb_seg2 {m1 m2 u : Rat} (h0 : 1/6 ≤ u) (h1 : u < 1/2) : hueToRgb m1 m2 u = m2 := by
  unfold hueToRgb; grind
theorem hueToRgb_seg3 {m1 m2 u : Rat} (h0 : 1/2 ≤ u) (h1 : u < 2/3) : hueToRgb m1 m2 u = ((m2 - m1) * (2/3 - u)) * 6 + m1 := by
  unfold hueToRgb; grind
theorem hueToRgb_seg4 {m1 m2 u : Rat} (h0 : 2/3 ≤ u) (h1 : u ≤ 1) : hueToRgb m1 m2 u = m1 := by
  unfold hueToRgb; grind
theorem hueToRgb_wrap_hi {m1 m2 u : Rat} (h0 : 1 < u) (h1 : u ≤ 2) : hueToRgb m1 m2 u = hueToRgb m1 m2 (u - 1) := by
  unfold hueToRgb; grind
theorem hueToRgb_wrap_lo {m1 m2 u : Rat} (h0 : -1 ≤ u) (h1 : u < 0) : hueToRgb m1 m2 u = hueToRgb m1 m2 (u + 1) := by
  unfold hueToRgb; grind


/-- `hue_to_rgb` at sextant position `p` (hue·6) -/
theorem hueToRgb_sextant {m1 m2 p : Rat} (hp0 : 0 ≤ p) (hp6 : p ≤ 6) :
    hueToRgb m1 m2 (p / 6) =
      if p < 1 then (m2 - m1) * p + m1 else if p < 3 then m2 else if p < 4 then (m2 - m1) * (4 - p) + m1 else m1 := by
  split
  · rw [hueToRgb_seg1 (by grind) (by grind)]; grind
  · split
    · rw [hueToRgb_seg2 (by grind) (by grind)]
    · split
      · rw [hueToRgb_seg3 (by grind) (by grind)]; grind
      · rw [hueToRgb_seg4 (by grind) (by grind)]

/-- the three channel evaluations of `from_hsla` at sextant position `p ∈ [0,6)` -/
theorem channels_sextant {m1 m2 p : Rat} (hp0 : 0 ≤ p) (hp6 : p < 6) :
    hueToRgb m1 m2 (p / 6 + 1/3) = (if p ≤ 4 then hueToRgb m1 m2 ((p + 2) / 6) else hueToRgb m1 m2 ((p - 4) / 6)) ∧
    hueToRgb m1 m2 (p / 6 - 1/3) = (if 2 ≤ p then hueToRgb m1 m2 ((p - 2) / 6) else hueToRgb m1 m2 ((p + 4) / 6)) := by
  constructor
  · split
    · congr 1; grind
    · rw [hueToRgb_wrap_hi (by grind) (by grind)]; congr 1; grind
  · split
    · congr 1; grind
    · rw [hueToRgb_wrap_lo (by grind) (by grind)]; congr 1; grind


/-- piecewise-linear profile of `hue_to_rgb` over the sextant position -/
def sext (m1 m2 p : Rat) : Rat :=
  if p < 1 then (m2 - m1) * p + m1 else if p < 3 then m2 else if p < 4 then (m2 - m1) * (4 - p) + m1 else m1

theorem triple_eval {m1 m2 p : Rat} (hp0 : 0 ≤ p) (hp6 : p < 6) :
    hueToRgb m1 m2 (p / 6 + 1/3) = (if p ≤ 4 then sext m1 m2 (p + 2) else sext m1 m2 (p - 4)) ∧
    hueToRgb m1 m2 (p / 6) = sext m1 m2 p ∧
    hueToRgb m1 m2 (p / 6 - 1/3) = (if 2 ≤ p then sext m1 m2 (p - 2) else sext m1 m2 (p + 4)) := by
  have ⟨a, b⟩ := channels_sextant (m1 := m1) (m2 := m2) hp0 hp6
  rw [a, b]
  refine ⟨?_, ?_, ?_⟩
  · split
    · exact hueToRgb_sextant (by grind) (by grind)
    · exact hueToRgb_sextant (by grind) (by grind)
  · exact hueToRgb_sextant (by grind) (by grind)
  · split
    · exact hueToRgb_sextant (by grind) (by grind)
    · exact hueToRgb_sextant (by grind) (by grind)

/-- The six orderings of max/min: at the sextant position computed by `as_hsla`, `from_hsla`'s three
    evaluations return the original channels.  `q ∈ [0,1]` is the relative position of the middle channel. -/
theorem six_orderings {mn mx q : Rat} (q0 : 0 ≤ q) (q1 : q ≤ 1) (p : Rat) :
    let mid := (mx - mn) * q + mn
    let tr := (hueToRgb mn mx (p / 6 + 1/3), hueToRgb mn mx (p / 6), hueToRgb mn mx (p / 6 - 1/3))
    (p = 4 + q → tr = (mid, mn, mx)) ∧ (p = 4 - q → tr = (mn, mid, mx)) ∧
    (p = 2 + q → tr = (mn, mx, mid)) ∧ (p = 2 - q → tr = (mid, mx, mn)) ∧
    (p = q → tr = (mx, mid, mn)) ∧ (0 < q → p = 6 - q → tr = (mx, mn, mid)) := by
  intro mid tr
  have hq : q = 0 ∨ q = 1 ∨ (0 < q ∧ q < 1) := by grind
  refine ⟨?_, ?_, ?_, ?_, ?_, ?_⟩
  all_goals
    intros
    have ⟨a, b, c⟩ := triple_eval (m1 := mn) (m2 := mx) (p := p) (by grind) (by grind)
    simp only [tr, mid, a, b, c, sext, Prod.mk.injEq]
    rcases hq with h | h | h
    · subst h; refine ⟨?_, ?_, ?_⟩ <;> grind
    · subst h; refine ⟨?_, ?_, ?_⟩ <;> grind
    · refine ⟨?_, ?_, ?_⟩ <;> grind


theorem minmax_facts (x y z : Rat) :
    let mn := min3 x y z; let mx := max3 x y z
    mn ≤ x ∧ mn ≤ y ∧ mn ≤ z ∧ x ≤ mx ∧ y ≤ mx ∧ z ≤ mx ∧ (mn = x ∨ mn = y ∨ mn = z) ∧ (mx = x ∨ mx = y ∨ mx = z) := by
  simp only [min3, max3, nmin, nmax]
  grind

theorem hueToRgb_const (m u : Rat) : hueToRgb m m u = m := by
  unfold hueToRgb; grind

theorem hslToRgbExact_of_minmax {mn mx hue : Rat} (h0 : 0 ≤ mn) (h1 : mx ≤ 1) (hlt : mn < mx) :
    hslToRgbExact hue ((mx - mn) / (if mx + mn > 1 then 2 - (mx + mn) else mx + mn)) ((mn + mx) / 2) =
      (hueToRgb mn mx (hue / 360 + 1/3) * 255, hueToRgb mn mx (hue / 360) * 255, hueToRgb mn mx (hue / 360 - 1/3) * 255) := by
  have ⟨e1, e2⟩ := m1m2_recover h0 h1 hlt
  simp only [hslToRgbExact]
  rw [e1, e2]

theorem from_sextant {hq : Rat} (h0 : -1 ≤ hq) (h1 : hq < 6) :
    sassMod ((if hq < 0 then hq + 360 else hq) * 60) 360 / 360 = (if hq < 0 then hq + 6 else hq) / 6 := by
  rw [hue_norm h0 h1]
  split <;> grind


theorem hq_cases {x y z mn mx : Rat} (f1 : mn ≤ x) (f2 : mn ≤ y) (f3 : mn ≤ z) (f4 : x ≤ mx) (f5 : y ≤ mx) (f6 : z ≤ mx)
    (f7 : mn = x ∨ mn = y ∨ mn = z) (f8 : mx = x ∨ mx = y ∨ mx = z) (hlt : mn < mx) :
    ∃ q : Rat, 0 ≤ q ∧ q ≤ 1 ∧
      ((if z = mx then 4 + (x - y) / (mx - mn) else if y = mx then 2 + (z - x) / (mx - mn) else (y - z) / (mx - mn)) = 4 + q
          ∧ x = (mx - mn) * q + mn ∧ y = mn ∧ z = mx ∨
       (if z = mx then 4 + (x - y) / (mx - mn) else if y = mx then 2 + (z - x) / (mx - mn) else (y - z) / (mx - mn)) = 4 - q
          ∧ x = mn ∧ y = (mx - mn) * q + mn ∧ z = mx ∨
       (if z = mx then 4 + (x - y) / (mx - mn) else if y = mx then 2 + (z - x) / (mx - mn) else (y - z) / (mx - mn)) = 2 + q
          ∧ x = mn ∧ y = mx ∧ z = (mx - mn) * q + mn ∨
       (if z = mx then 4 + (x - y) / (mx - mn) else if y = mx then 2 + (z - x) / (mx - mn) else (y - z) / (mx - mn)) = 2 - q
          ∧ x = (mx - mn) * q + mn ∧ y = mx ∧ z = mn ∨
       (if z = mx then 4 + (x - y) / (mx - mn) else if y = mx then 2 + (z - x) / (mx - mn) else (y - z) / (mx - mn)) = q
          ∧ x = mx ∧ y = (mx - mn) * q + mn ∧ z = mn ∨
       (if z = mx then 4 + (x - y) / (mx - mn) else if y = mx then 2 + (z - x) / (mx - mn) else (y - z) / (mx - mn)) = -q
          ∧ x = mx ∧ y = mn ∧ z = (mx - mn) * q + mn) := by
  have hd : mx - mn ≠ 0 := by grind
  have hd0 : 0 < mx - mn := by grind
  have Q : ∀ w : Rat, mn ≤ w → w ≤ mx → 0 ≤ (w - mn) / (mx - mn) ∧ (w - mn) / (mx - mn) ≤ 1 ∧ w = (mx - mn) * ((w - mn) / (mx - mn)) + mn := by
    intro w a b
    exact ⟨div_nonneg' (by grind) hd0, div_le_one' hd0 (by grind), by grind⟩
  by_cases hz : z = mx
  · simp only [if_pos hz]
    by_cases hy : y = mn
    · have ⟨a, b, c⟩ := Q x f1 f4
      exact ⟨_, a, b, Or.inl ⟨by grind, c, hy, hz⟩⟩
    · have hx : x = mn := by grind
      have ⟨a, b, c⟩ := Q y f2 f5
      exact ⟨_, a, b, Or.inr (Or.inl ⟨by grind, hx, c, hz⟩)⟩
  · simp only [if_neg hz]
    by_cases hy : y = mx
    · simp only [if_pos hy]
      by_cases hx : x = mn
      · have ⟨a, b, c⟩ := Q z f3 f6
        exact ⟨_, a, b, Or.inr (Or.inr (Or.inl ⟨by grind, hx, hy, c⟩))⟩
      · have hz' : z = mn := by grind
        have ⟨a, b, c⟩ := Q x f1 f4
        exact ⟨_, a, b, Or.inr (Or.inr (Or.inr (Or.inl ⟨by grind, c, hy, hz'⟩)))⟩
    · simp only [if_neg hy]
      have hx : x = mx := by grind
      by_cases hz' : z = mn
      · have ⟨a, b, c⟩ := Q y f2 f5
        exact ⟨_, a, b, Or.inr (Or.inr (Or.inr (Or.inr (Or.inl ⟨by grind, hx, c, hz'⟩))))⟩
      · have hy' : y = mn := by grind
        have ⟨a, b, c⟩ := Q z f3 f6
        exact ⟨_, a, b, Or.inr (Or.inr (Or.inr (Or.inr (Or.inr ⟨by grind, hx, hy', c⟩))))⟩


/-- rgb → hsl → rgb is the identity on exact channels in [0,1] (before any rounding). -/
theorem roundtripE {x y z : Rat} (x0 : 0 ≤ x) (x1 : x ≤ 1) (y0 : 0 ≤ y) (y1 : y ≤ 1) (z0 : 0 ≤ z) (z1 : z ≤ 1) :
    hslToRgbExact (rgbToHslE x y z).1 (rgbToHslE x y z).2.1 (rgbToHslE x y z).2.2 = (x * 255, y * 255, z * 255) := by
  have F := minmax_facts x y z
  simp only [rgbToHslE]
  generalize min3 x y z = mn at F ⊢
  generalize max3 x y z = mx at F ⊢
  obtain ⟨f1, f2, f3, f4, f5, f6, f7, f8⟩ := F
  by_cases he : mn = mx
  · have hx : x = mn := by grind
    have hy : y = mn := by grind
    have hz : z = mn := by grind
    subst he hx hy hz
    simp only [if_true]
    have e0 : sassMod ((if (0 : Rat) < 0 then 0 + 360 else 0) * 60) 360 = 0 := by decide +kernel
    rw [e0]
    simp only [hslToRgbExact]
    have c0 : clamp 0 0 1 = 0 := by decide +kernel
    have c1 : clamp ((z + z) / 2) 0 1 = z := by
      rw [clamp_id (x := (z + z) / 2) (lo := 0) (hi := 1) (by grind) (by grind)]; grind
    rw [c0, c1]
    have m2 : (if z ≤ 1 / 2 then z * (0 + 1) else z * -0 + (z + 0)) = z := by split <;> grind
    rw [m2]
    have m1 : z * 2 + -z = z := by grind
    rw [m1]
    simp only [hueToRgb_const]
  · have hlt : mn < mx := by grind
    simp only [if_neg he]
    obtain ⟨q, q0, q1, hc⟩ := hq_cases f1 f2 f3 f4 f5 f6 f7 f8 hlt
    generalize (if z = mx then 4 + (x - y) / (mx - mn) else if y = mx then 2 + (z - x) / (mx - mn) else (y - z) / (mx - mn)) = hq at hc ⊢
    have hb : -1 ≤ hq ∧ hq < 6 := by grind
    rw [hslToRgbExact_of_minmax (by grind) (by grind) hlt, from_sextant hb.1 hb.2]
    have S := six_orderings (mn := mn) (mx := mx) q0 q1 (if hq < 0 then hq + 6 else hq)
    simp only [] at S
    obtain ⟨s1, s2, s3, s4, s5, s6⟩ := S
    rcases hc with ⟨h, ex, ey, ez⟩ | ⟨h, ex, ey, ez⟩ | ⟨h, ex, ey, ez⟩ | ⟨h, ex, ey, ez⟩ | ⟨h, ex, ey, ez⟩ | ⟨h, ex, ey, ez⟩
    · have := s1 (by grind); simp only [Prod.mk.injEq] at this ⊢; grind
    · have := s2 (by grind); simp only [Prod.mk.injEq] at this ⊢; grind
    · have := s3 (by grind); simp only [Prod.mk.injEq] at this ⊢; grind
    · have := s4 (by grind); simp only [Prod.mk.injEq] at this ⊢; grind
    · have := s5 (by grind); simp only [Prod.mk.injEq] at this ⊢; grind
    · by_cases hq0 : q = 0
      · have := s5 (by grind); simp only [Prod.mk.injEq] at this ⊢; grind
      · have := s6 (by grind) (by grind); simp only [Prod.mk.injEq] at this ⊢; grind


theorem absQ_nonneg (x : Rat) : 0 ≤ absQ x := by unfold absQ; split <;> grind

theorem fuzzyEq_far {a b : Rat} (h : eps < absQ (a - b)) : fuzzyEq a b = false := by
  have hne : a ≠ b := by
    intro e; subst e
    have : absQ (a - a) = 0 := by unfold absQ; split <;> grind
    rw [this] at h; exact absurd h (by decide +kernel)
  unfold fuzzyEq
  have : ¬ (absQ (a - b) ≤ eps) := by grind
  simp [hne, this]

/-- values at least 1/255 apart (or equal) are compared exactly by `fuzzy_equals` -/
theorem fuzzyEq_sep {u v : Rat} (h : u = v ∨ 1/255 ≤ absQ (u - v)) : fuzzyEq u v = decide (u = v) := by
  rcases h with h | h
  · subst h; simp [fuzzyEq_self]
  · have hf : eps < absQ (u - v) := by
      have : eps < 1/255 := by decide +kernel
      grind
    have hne : u ≠ v := by
      intro e; subst e
      have : absQ (u - u) = 0 := by unfold absQ; split <;> grind
      rw [this] at h; exact absurd h (by decide +kernel)
    simp [fuzzyEq_far hf, hne]

theorem sep_natCast (a b : Nat) : ((a : Rat) / 255 = (b : Rat) / 255) ∨ 1/255 ≤ absQ ((a : Rat) / 255 - (b : Rat) / 255) := by
  by_cases h : a = b
  · left; rw [h]
  · right
    unfold absQ
    rcases Nat.lt_or_gt_of_ne h with h | h
    · have : ((a + 1 : Nat) : Rat) ≤ (b : Rat) := Rat.natCast_le_natCast.mpr h
      have e : ((a + 1 : Nat) : Rat) = (a : Rat) + 1 := by simp [Rat.natCast_add]
      split <;> grind
    · have : ((b + 1 : Nat) : Rat) ≤ (a : Rat) := Rat.natCast_le_natCast.mpr h
      have e : ((b + 1 : Nat) : Rat) = (b : Rat) + 1 := by simp [Rat.natCast_add]
      split <;> grind


/-- the three channels are pairwise equal or at least 1/255 apart (true for k/255) -/
def Sep (x y z : Rat) : Prop :=
  ∀ u v : Rat, (u = x ∨ u = y ∨ u = z) → (v = x ∨ v = y ∨ v = z) → (u = v ∨ 1/255 ≤ absQ (u - v))

theorem div_le_self_of_nonpos {a d : Rat} (ha : a ≤ 0) (d0 : 0 < d) (d1 : d ≤ 1) : a / d ≤ a := by
  rw [Rat.div_def]
  have i0 : 0 < d⁻¹ := Rat.inv_pos.mpr d0
  have e : d * d⁻¹ = 1 := by grind
  have i1 : 1 ≤ d⁻¹ := by
    have := Rat.mul_le_mul_of_nonneg_right d1 (Rat.le_of_lt i0)
    grind
  have : (-a) * 1 ≤ (-a) * d⁻¹ := Rat.mul_le_mul_of_nonneg_left i1 (by grind)
  grind

theorem neg_hue_rule {h : Rat} (hh : h < 0 → h ≤ -(1/255)) :
    (decide (h < 0) && !fuzzyEq h 0) = decide (h < 0) := by
  by_cases hn : h < 0
  · have : eps < absQ (h - 0) := by
      have e : eps < 1/255 := by decide +kernel
      have := hh hn
      unfold absQ; split <;> grind
    simp [hn, fuzzyEq_far this]
  · simp [hn]

/-- On channels that are multiples of 1/255 the fuzzy comparisons of `as_hsla` are exact. -/
theorem rgbToHsl_eq_E {x y z : Rat} (hs : Sep x y z) (_x0 : 0 ≤ x) (x1 : x ≤ 1) (y0 : 0 ≤ y) (_y1 : y ≤ 1)
    (_z0 : 0 ≤ z) (_z1 : z ≤ 1) : rgbToHsl x y z = rgbToHslE x y z := by
  have F := minmax_facts x y z
  simp only [rgbToHsl, rgbToHslE]
  generalize min3 x y z = mn at F ⊢
  generalize max3 x y z = mx at F ⊢
  obtain ⟨f1, f2, f3, f4, f5, f6, f7, f8⟩ := F
  have e1 : fuzzyEq mn mx = decide (mn = mx) := fuzzyEq_sep (hs mn mx (by grind) (by grind))
  have e2 : fuzzyEq z mx = decide (z = mx) := fuzzyEq_sep (hs z mx (by grind) (by grind))
  have e3 : fuzzyEq y mx = decide (y = mx) := fuzzyEq_sep (hs y mx (by grind) (by grind))
  simp only [e1, e2, e3, decide_eq_true_eq]
  have key : ∀ h : Rat, h = (if mn = mx then 0 else if z = mx then 4 + (x - y) / (mx - mn)
      else if y = mx then 2 + (z - x) / (mx - mn) else (y - z) / (mx - mn)) → (h < 0 → h ≤ -(1/255)) := by
    intro h hdef hneg
    by_cases c1 : mn = mx
    · simp only [if_pos c1] at hdef; grind
    · have hlt : mn < mx := by grind
      have d0 : 0 < mx - mn := by grind
      simp only [if_neg c1] at hdef
      by_cases c2 : z = mx
      · simp only [if_pos c2] at hdef
        have : -1 ≤ (x - y) / (mx - mn) := by
          have := div_le_one' (d := y - x) d0 (by grind)
          have e : (y - x) / (mx - mn) = -((x - y) / (mx - mn)) := by grind
          grind
        grind
      · simp only [if_neg c2] at hdef
        by_cases c3 : y = mx
        · simp only [if_pos c3] at hdef
          have : -1 ≤ (z - x) / (mx - mn) := by
            have := div_le_one' (d := x - z) d0 (by grind)
            have e : (x - z) / (mx - mn) = -((z - x) / (mx - mn)) := by grind
            grind
          grind
        · simp only [if_neg c3] at hdef
          have hyz : y - z < 0 := by
            by_cases h' : y - z < 0
            · exact h'
            · have := div_nonneg' (a := y - z) (by grind) d0; grind
          have sp := hs y z (by grind) (by grind)
          have : y - z ≤ -(1/255) := by
            rcases sp with sp | sp
            · grind
            · unfold absQ at sp; split at sp <;> grind
          have := div_le_self_of_nonpos (a := y - z) (d := mx - mn) (by grind) d0 (by grind)
          grind
  generalize hh : (if mn = mx then (0 : Rat) else if z = mx then 4 + (x - y) / (mx - mn)
      else if y = mx then 2 + (z - x) / (mx - mn) else (y - z) / (mx - mn)) = h
  have r := neg_hue_rule (key h hh.symm)
  simp only [Bool.and_eq_true, decide_eq_true_eq, Bool.not_eq_eq_eq_not, Bool.not_true] at r ⊢
  by_cases hn : h < 0
  · have : fuzzyEq h 0 = false := by simpa [hn] using r
    simp [hn, this]
  · simp [hn]

end Grass.Color
