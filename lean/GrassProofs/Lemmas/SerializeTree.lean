import GrassProofs.Lemmas.Serialize
/-
  Helper lemmas for C05 / C06 about the statement tree: every statement rendering is scanner-neutral
  under the leaf guard (`visit_N`, `children_N`, mutual induction), the top-level loop and `finish`
  preserve it (`serialize_N`), and invisible statements write nothing (`visit_invisible`).
-/
namespace Grass.Serialize
set_option linter.unusedSimpArgs false

theorem N_single (c : Char) (h : neutral [c] = true) : N [c] := N_of_neutral h

theorem N_spaces (n : Nat) : N (spaces n) := by
  induction n with
  | zero => exact N_nil
  | succ k ih =>
    have : spaces (k + 1) = [' '] ++ spaces k := by simp [spaces, List.replicate_succ]
    rw [this]; exact N_append (N_single ' ' (by decide)) ih

theorem N_indentOut (st : Style) (ind : Nat) : N (indentOut st ind) := by
  unfold indentOut; split; exact N_nil; exact N_spaces ind

theorem N_optNl (st : Style) : N (optNl st) := by
  unfold optNl; split; exact N_nil; exact N_single '\n' (by decide)

theorem N_optSp (st : Style) : N (optSp st) := by
  unfold optSp; split; exact N_nil; exact N_single ' ' (by decide)

theorem N_lit (s : String) (h : neutral (lit s) = true) : N (lit s) := N_of_neutral h

theorem N_block (st : Style) (ind : Nat) (body : Str) (h : N body) :
    N (openBlock st ++ body ++ closeBlock st ind) := by
  intro d
  have hc : run ⟨.normal, d + 1⟩ (closeBlock st ind) = some ⟨.normal, d⟩ := by
    unfold closeBlock
    rw [run_append, N_indentOut st ind (d + 1)]
    simp [run, step, stepNormal]
  cases st
  · simp only [openBlock, Style.isCompressed, lit]
    show run ⟨.normal, d⟩ (" {\n".toList ++ body ++ closeBlock .expanded ind) = _
    have : " {\n".toList = [' ', '{', '\n'] := by decide
    rw [this]
    simp only [List.cons_append, List.nil_append, List.append_assoc, run, step, stepNormal]
    simp
    rw [run_append, h (d + 1)]
    simpa using hc
  · simp only [openBlock, Style.isCompressed]
    simp only [List.cons_append, List.nil_append, List.append_assoc, run, step, stepNormal, if_true]
    simp
    rw [run_append, h (d + 1)]
    simpa using hc



theorem N_atom (a : Atom) (h : a.ok = true) : N a.out := by
  cases a with
  | raw s => exact N_of_neutral h
  | quoted s => exact N_quote s

theorem N_sepOut (st : Style) (sep : Sep) (h : sep ≠ .slash) : N (sepOut st sep) := by
  cases sep with
  | space => exact N_single ' ' (by decide)
  | comma =>
    simp only [sepOut]; split
    · exact N_single ',' (by decide)
    · exact N_lit ", " (by decide)
  | slash => exact absurd rfl h

theorem N_listLoop (st : Style) (sep : Sep) (hs : sep ≠ .slash) (items : List Atom)
    (h : items.all Atom.ok = true) : N (listLoop st sep items) := by
  induction items with
  | nil => exact N_nil
  | cons a r ih =>
    simp only [List.all_cons, Bool.and_eq_true] at h
    cases r with
    | nil => simpa [listLoop] using N_atom a h.1
    | cons b r' =>
      simp only [listLoop]
      exact N_append (N_append (N_atom a h.1) (N_sepOut st sep hs)) (ih h.2)

theorem all_filter {α} (p q : α → Bool) (l : List α) (h : l.all p = true) : (l.filter q).all p = true := by
  simp only [List.all_eq_true, List.mem_filter] at *
  exact fun x hx => h x hx.1

theorem N_value (st : Style) (v : Value) (h : v.ok st = true) : N (v.out st) := by
  cases v with
  | atom a => exact N_atom a h
  | list sep items =>
    cases sep with
    | slash => exact N_of_neutral h
    | space => exact N_listLoop st .space (by decide) _ (all_filter _ _ _ h)
    | comma => exact N_listLoop st .comma (by decide) _ (all_filter _ _ _ h)

theorem N_childSemi (st : Style) (l : Bool) (s : Stmt) : N (childSemi st l s) := by
  unfold childSemi; split
  · exact N_single ';' (by decide)
  · exact N_nil

theorem N_cons (c : Char) (x : Str) (hc : neutral [c] = true) (hx : N x) : N (c :: x) :=
  N_append (a := [c]) (N_single c hc) hx

theorem N_opt_params (params : Str) (h : neutral params = true) :
    N (if params.isEmpty then [] else ' ' :: params) := by
  split
  · exact N_nil
  · exact N_cons ' ' _ (by decide) (N_of_neutral h)

mutual
theorem visit_N (st : Style) : ∀ (s : Stmt) (ind : Nat), s.leavesOk st = true → N (visitStmt st ind s).2
  | .rule ge sel body, ind, h => by
    simp only [Stmt.leavesOk, Bool.and_eq_true] at h
    rw [visitStmt]
    split
    · exact N_nil
    · have hb := children_N st body (ind + 2) h.2
      simp only [← List.append_assoc]
      simp only [List.append_assoc]
      exact N_append (N_indentOut st ind) (N_append (N_of_neutral h.1)
        (by simpa [blockOut, List.append_assoc] using N_block st ind _ hb))
  | .decl name custom v, ind, h => by
    simp only [Stmt.leavesOk, Bool.and_eq_true] at h
    rw [visitStmt]
    split
    · exact N_nil
    · refine N_append (N_append (N_append (N_append (N_indentOut st ind) (N_of_neutral h.1))
        (N_single ':' (by decide))) ?_) (N_value st v h.2)
      split
      · exact N_single ' ' (by decide)
      · exact N_nil
  | .media ge qs body, ind, h => by
    simp only [Stmt.leavesOk, Bool.and_eq_true] at h
    rw [visitStmt]
    split
    · exact N_nil
    · have hb := children_N st body (ind + 2) h.2
      exact N_append (N_append (N_append (N_indentOut st ind) (N_lit "@media " (by decide)))
        (N_of_neutral h.1)) (by simpa [blockOut, List.append_assoc] using N_block st ind _ hb)
  | .supports ge params body, ind, h => by
    simp only [Stmt.leavesOk, Bool.and_eq_true] at h
    rw [visitStmt]
    split
    · exact N_nil
    · have hb := children_N st body (ind + 2) h.2
      exact N_append (N_append (N_append (N_indentOut st ind) (N_lit "@supports" (by decide)))
        (N_opt_params params h.1)) (by simpa [blockOut, List.append_assoc] using N_block st ind _ hb)
  | .unknown ge name params hasBody body, ind, h => by
    simp only [Stmt.leavesOk, Bool.and_eq_true] at h
    rw [visitStmt]
    have hb := children_N st body (ind + 2) h.2
    refine N_append (N_append (N_append (N_indentOut st ind) (N_cons '@' _ (by decide) (N_of_neutral h.1.1)))
      (N_opt_params params h.1.2)) ?_
    · split
      · exact N_nil
      · split
        · exact N_lit " {}" (by decide)
        · simpa [blockOut, List.append_assoc] using N_block st ind _ hb
  | .kf sels body, ind, h => by
    simp only [Stmt.leavesOk, Bool.and_eq_true] at h
    rw [visitStmt]
    split
    · exact N_nil
    · have hb := children_N st body (ind + 2) h.2
      exact N_append (N_append (N_indentOut st ind) (N_of_neutral h.1))
        (by simpa [blockOut, List.append_assoc] using N_block st ind _ hb)
  | .comment text col, ind, h => by
    simp only [Stmt.leavesOk] at h
    unfold visitStmt
    split
    · exact N_append (N_indentOut st ind) (N_of_neutral h)
    · exact N_nil
  | .import url mods, ind, h => by
    simp only [Stmt.leavesOk, Bool.and_eq_true] at h
    unfold visitStmt
    refine N_append (N_append (N_append (N_indentOut st ind) (N_lit "@import " (by decide))) (N_of_neutral h.1)) ?_
    cases mods with
    | none => exact N_nil
    | some m => exact N_cons ' ' _ (by decide) (N_of_neutral h.2)
theorem children_N (st : Style) : ∀ (ss : Stmts) (ind : Nat), ss.leavesOk st = true → N (childrenLoop st ind ss)
  | .nil, ind, _ => by rw [childrenLoop]; exact N_nil
  | .cons s ss, ind, h => by
    simp only [Stmts.leavesOk, Bool.and_eq_true] at h
    unfold childrenLoop
    have h1 := visit_N st s ind h.1
    have h2 := children_N st ss ind h.2
    refine N_append ?_ h2
    cases hw : (visitStmt st ind s).1
    · simp only [Bool.false_eq_true, if_false]; exact N_nil
    · simp only [if_true]
      exact N_append (N_append h1 (N_childSemi st _ s)) (N_optNl st)
end

/-! top level -/

theorem visitGroup_N (st : Style) (T : Top) (s : Stmt) (hT : N T.buf) (hs : s.leavesOk st = true) :
    N (visitGroup st T s).buf := by
  unfold visitGroup
  simp only
  refine N_append ?_ (visit_N st s 0 hs)
  have h1 : N (if T.prevSemi then T.buf ++ [';'] else T.buf) := by
    split
    · exact N_append hT (N_single ';' (by decide))
    · exact hT
  generalize (if T.prevSemi then T.buf ++ [';'] else T.buf) = b1 at h1
  have h2 : N (if !b1.isEmpty then b1 ++ optNl st else b1) := by
    split
    · exact N_append h1 (N_optNl st)
    · exact h1
  generalize (if !b1.isEmpty then b1 ++ optNl st else b1) = b2 at h2
  split
  · exact N_append h2 (N_optNl st)
  · exact h2

theorem topLoop_N (st : Style) (t : List Stmt) (T : Top) (hT : N T.buf) (ht : treeOk st t = true) :
    N (topLoop st T t).buf := by
  induction t generalizing T with
  | nil => simpa [topLoop] using hT
  | cons s ss ih =>
    simp only [treeOk, List.all_cons, Bool.and_eq_true] at ht
    simp only [topLoop]
    split
    · exact ih T hT (by simpa [treeOk] using ht.2)
    · exact ih _ (visitGroup_N st T s hT ht.1) (by simpa [treeOk] using ht.2)

theorem N_bom : N [bom] := N_of_neutral (by decide)
theorem N_charsetPrefix : N charsetPrefix := N_of_neutral (by decide)

theorem finish_N (st : Style) (cs : Bool) (T : Top) (hT : N T.buf) : N (finish st cs T) := by
  unfold finish
  simp only
  have h1 : N (if T.prevSemi then T.buf ++ [';'] else T.buf) := by
    split
    · exact N_append hT (N_single ';' (by decide))
    · exact hT
  generalize (if T.prevSemi then T.buf ++ [';'] else T.buf) = b1 at h1
  have h2 : N (if !b1.isEmpty then b1 ++ optNl st else b1) := by
    split
    · exact N_append h1 (N_optNl st)
    · exact h1
  generalize (if !b1.isEmpty then b1 ++ optNl st else b1) = b2 at h2
  split
  · exact N_append (a := [bom]) N_bom h2
  · split
    · exact N_append N_charsetPrefix h2
    · exact h2

theorem wellFormed_of_N (x : Str) (h : N x) : wellFormed x = true := by
  simp [wellFormed, h 0]

theorem serialize_N (st : Style) (cs : Bool) (t : List Stmt) (h : treeOk st t = true) :
    N (serialize st cs t) :=
  finish_N st cs _ (topLoop_N st t Top.init N_nil h)

/-! invisibility -/

theorem visit_invisible (st : Style) (ind : Nat) (s : Stmt) (h : s.isInvisible = true) :
    visitStmt st ind s = (false, []) := by
  cases s with
  | rule ge sel body => rw [visitStmt]; simp [h]
  | decl name custom v => rw [visitStmt]; simp only [Stmt.isInvisible] at h; simp [h]
  | media ge qs body => rw [visitStmt]; simp [h]
  | supports ge p body => rw [visitStmt]; simp [h]
  | unknown ge n p hb body => simp [Stmt.isInvisible] at h
  | kf sels body => rw [visitStmt]; simp [h]
  | comment text col => simp [Stmt.isInvisible] at h
  | «import» url mods => simp [Stmt.isInvisible] at h

theorem visit_visible (st : Style) (ind : Nat) (s : Stmt) (h : s.isInvisible = false) :
    (visitStmt st ind s).1 = true := by
  cases s with
  | rule ge sel body => rw [visitStmt]; simp [h]
  | decl name custom v => rw [visitStmt]; simp only [Stmt.isInvisible] at h; simp [h]
  | media ge qs body => rw [visitStmt]; simp [h]
  | supports ge p body => rw [visitStmt]; simp [h]
  | unknown ge n p hb body => unfold visitStmt; simp
  | kf sels body => rw [visitStmt]; simp [h]
  | comment text col => unfold visitStmt; split <;> rfl
  | «import» url mods => unfold visitStmt; simp

theorem topLoop_append (st : Style) (a b : List Stmt) (T : Top) :
    topLoop st T (a ++ b) = topLoop st (topLoop st T a) b := by
  induction a generalizing T with
  | nil => rfl
  | cons s ss ih => simp only [List.cons_append, topLoop]; split <;> exact ih _

theorem childrenLoop_invisible_cons (st : Style) (ind : Nat) (s : Stmt) (ss : Stmts)
    (h : s.isInvisible = true) : childrenLoop st ind (.cons s ss) = childrenLoop st ind ss := by
  conv => lhs; unfold childrenLoop
  simp [visit_invisible st ind s h]

/-! placeholders never reach the output -/

theorem pct_compoundOut (ss : List Simple) (hv : compoundInvisible ss = false)
    (h : ∀ s ∈ simpleTexts ss, '%' ∉ s) : '%' ∉ compoundOut ss := by
  have key : '%' ∉ (ss.map Simple.out).flatten := by
    induction ss with
    | nil => simp
    | cons a r ih =>
      simp only [compoundInvisible, List.any_cons, Bool.or_eq_false_iff] at hv
      cases a with
      | text s =>
        have h1 := h s (by simp [simpleTexts])
        have h2 := ih (by simpa [compoundInvisible] using hv.2) (fun s hs => h s (by simp [simpleTexts, hs]))
        simp [Simple.out, h1, h2]
      | placeholder n => simp [Simple.isInvisible] at hv
  unfold compoundOut
  simp only
  split
  · simp
  · exact key

theorem pct_complexOut (st : Style) (last : Option Component) (cs : List Component)
    (hv : cs.any Component.isInvisible = false) (h : ∀ s ∈ compTexts cs, '%' ∉ s) :
    '%' ∉ complexOut st last cs := by
  induction cs generalizing last with
  | nil => simp [complexOut]
  | cons c r ih =>
    simp only [List.any_cons, Bool.or_eq_false_iff] at hv
    have hsp : '%' ∉ (match last with
      | some l => if (!omitSpaces st l && !omitSpaces st c) = true then [' '] else []
      | none => []) := by
      cases last with
      | none => simp
      | some l => split <;> simp
    have hc : '%' ∉ c.out := by
      cases c with
      | comb ch =>
        simpa [Component.out] using h [ch] (by simp [compTexts])
      | compound ss =>
        exact pct_compoundOut ss (by simpa [Component.isInvisible] using hv.1)
          (fun s hs => h s (by simp [compTexts, hs]))
    have hr := ih (some c) hv.2 (fun s hs => h s (by cases c <;> simp [compTexts, hs]))
    simp only [complexOut, List.mem_append, not_or]
    exact ⟨⟨hsp, hc⟩, hr⟩

theorem pct_selectorLoop (st : Style) (first : Bool) (l : List Complex)
    (hv : ∀ cx ∈ l, cx.isInvisible = false) (h : ∀ cx ∈ l, ∀ s ∈ compTexts cx.comps, '%' ∉ s) :
    '%' ∉ selectorLoop st first l := by
  induction l generalizing first with
  | nil => simp [selectorLoop]
  | cons cx r ih =>
    have h1 : '%' ∉ (if first = true then [] else ',' :: (if cx.lineBreak = true then optNl st else optSp st)) := by
      split
      · simp
      · cases st <;> split <;> simp [optNl, optSp, Style.isCompressed]
    have h2 := pct_complexOut st none cx.comps (by simpa [Complex.isInvisible] using hv cx (by simp))
      (h cx (by simp))
    have h3 := ih false (fun c hc => hv c (by simp [hc])) (fun c hc => h c (by simp [hc]))
    simp only [selectorLoop, List.mem_append, not_or]
    exact ⟨⟨h1, h2⟩, h3⟩

/-- No `%` reaches the output of a selector unless one of its opaque texts contains it: placeholder
    selectors (`%name`) are never printed. -/
theorem pct_selectorOut (st : Style) (sel : Selector) (h : ∀ s ∈ selTexts sel, '%' ∉ s) :
    '%' ∉ selectorOut st sel := by
  unfold selectorOut
  apply pct_selectorLoop
  · intro cx hcx
    simpa using (List.mem_filter.mp hcx).2
  · intro cx hcx s hs
    exact h s (by
      simp only [selTexts, List.mem_flatten, List.mem_map]
      exact ⟨compTexts cx.comps, ⟨cx, (List.mem_filter.mp hcx).1, rfl⟩, hs⟩)


end Grass.Serialize
