import Grass.Calc
/-
  Helper lemmas for C16: the reader `pSum` inverts the printer `pr` up to value.
  Part 1: fuel monotonicity and the big-step rules of the parser.
-/
namespace Grass.Calc

abbrev PR := Option (CalcArg × List Tok)

theorem pAtom_succ (f : Nat) (ts : List Tok) : pAtom (f + 1) ts =
    match ts with
    | .num n u :: ts => some (.number n u, ts)
    | .atom id :: ts => some (.str id false, ts)
    | .lp :: ts =>
      match pSum f ts with
      | some (e, .rp :: ts') => some (e, ts')
      | _ => Option.none
    | .fn name :: ts =>
      match pArgs f ts with
      | some (as, .rp :: ts') => some (.calculation name as, ts')
      | _ => Option.none
    | _ => Option.none := rfl

theorem pProdLoop_succ (f : Nat) (acc : CalcArg) (ts : List Tok) : pProdLoop (f + 1) acc ts =
    match ts with
    | .op .mul :: ts' =>
      match pAtom f ts' with
      | some (b, ts'') => pProdLoop f (.operation acc .mul b) ts''
      | Option.none => Option.none
    | .op .div :: ts' =>
      match pAtom f ts' with
      | some (b, ts'') => pProdLoop f (.operation acc .div b) ts''
      | Option.none => Option.none
    | _ => some (acc, ts) := rfl

theorem pProd_succ (f : Nat) (ts : List Tok) : pProd (f + 1) ts =
    match pAtom f ts with
    | some (a, ts') => pProdLoop f a ts'
    | Option.none => Option.none := rfl

theorem pSumLoop_succ (f : Nat) (acc : CalcArg) (ts : List Tok) : pSumLoop (f + 1) acc ts =
    match ts with
    | .op .plus :: ts' =>
      match pProd f ts' with
      | some (b, ts'') => pSumLoop f (.operation acc .plus b) ts''
      | Option.none => Option.none
    | .op .minus :: ts' =>
      match pProd f ts' with
      | some (b, ts'') => pSumLoop f (.operation acc .minus b) ts''
      | Option.none => Option.none
    | _ => some (acc, ts) := rfl

theorem pSum_succ (f : Nat) (ts : List Tok) : pSum (f + 1) ts =
    match pProd f ts with
    | some (a, ts') => pSumLoop f a ts'
    | Option.none => Option.none := rfl

theorem pArgs_succ (f : Nat) (ts : List Tok) : pArgs (f + 1) ts =
    match pSum f ts with
    | some (a, .comma :: ts') =>
      match pArgs f ts' with
      | some (as, ts'') => some (.cons a as, ts'')
      | Option.none => Option.none
    | some (a, ts') => some (.cons a .nil, ts')
    | Option.none => Option.none := rfl

/-- all six parser functions keep their result when given one more unit of fuel -/
def Mono (f : Nat) : Prop :=
  (∀ ts r, pAtom f ts = some r → pAtom (f + 1) ts = some r) ∧
  (∀ acc ts r, pProdLoop f acc ts = some r → pProdLoop (f + 1) acc ts = some r) ∧
  (∀ ts r, pProd f ts = some r → pProd (f + 1) ts = some r) ∧
  (∀ acc ts r, pSumLoop f acc ts = some r → pSumLoop (f + 1) acc ts = some r) ∧
  (∀ ts r, pSum f ts = some r → pSum (f + 1) ts = some r) ∧
  (∀ ts r, pArgs f ts = some r → pArgs (f + 1) ts = some r)

theorem mono_all : ∀ f, Mono f := by
  intro f
  induction f with
  | zero => refine ⟨?_, ?_, ?_, ?_, ?_, ?_⟩ <;> intros <;> rename_i h <;> cases h
  | succ f ih =>
    obtain ⟨hA, hPL, hP, hSL, hS, hAr⟩ := ih
    refine ⟨?_, ?_, ?_, ?_, ?_, ?_⟩
    · intro ts r h
      rw [pAtom_succ] at h ⊢
      split at h
      · exact h
      · exact h
      · rename_i ts'
        cases hs : pSum f ts' with
        | none => simp [hs] at h
        | some p => rw [hS _ _ hs]; rw [hs] at h; exact h
      · rename_i nm ts'
        cases hs : pArgs f ts' with
        | none => simp [hs] at h
        | some p => rw [hAr _ _ hs]; rw [hs] at h; exact h
      · exact h
    · intro acc ts r h
      rw [pProdLoop_succ] at h ⊢
      split at h
      · rename_i ts'
        cases hs : pAtom f ts' with
        | none => simp [hs] at h
        | some p => rw [hA _ _ hs]; rw [hs] at h; exact hPL _ _ _ h
      · rename_i ts'
        cases hs : pAtom f ts' with
        | none => simp [hs] at h
        | some p => rw [hA _ _ hs]; rw [hs] at h; exact hPL _ _ _ h
      · exact h
    · intro ts r h
      rw [pProd_succ] at h ⊢
      cases hs : pAtom f ts with
      | none => simp [hs] at h
      | some p => rw [hA _ _ hs]; rw [hs] at h; exact hPL _ _ _ h
    · intro acc ts r h
      rw [pSumLoop_succ] at h ⊢
      split at h
      · rename_i ts'
        cases hs : pProd f ts' with
        | none => simp [hs] at h
        | some p => rw [hP _ _ hs]; rw [hs] at h; exact hSL _ _ _ h
      · rename_i ts'
        cases hs : pProd f ts' with
        | none => simp [hs] at h
        | some p => rw [hP _ _ hs]; rw [hs] at h; exact hSL _ _ _ h
      · exact h
    · intro ts r h
      rw [pSum_succ] at h ⊢
      cases hs : pProd f ts with
      | none => simp [hs] at h
      | some p => rw [hP _ _ hs]; rw [hs] at h; exact hSL _ _ _ h
    · intro ts r h
      rw [pArgs_succ] at h ⊢
      cases hs : pSum f ts with
      | none => simp [hs] at h
      | some p =>
        rw [hS _ _ hs]; rw [hs] at h
        obtain ⟨a, ts'⟩ := p
        cases ts' with
        | nil => exact h
        | cons t ts'' =>
          cases t <;> try exact h
          cases ha : pArgs f ts'' with
          | none => simp [ha] at h
          | some q =>
            simp only [ha] at h
            simp only [hAr _ _ ha]
            exact h

theorem mono_le {f g : Nat} (h : f ≤ g) :
    (∀ ts r, pAtom f ts = some r → pAtom g ts = some r) ∧
    (∀ acc ts r, pProdLoop f acc ts = some r → pProdLoop g acc ts = some r) ∧
    (∀ ts r, pProd f ts = some r → pProd g ts = some r) ∧
    (∀ acc ts r, pSumLoop f acc ts = some r → pSumLoop g acc ts = some r) ∧
    (∀ ts r, pSum f ts = some r → pSum g ts = some r) ∧
    (∀ ts r, pArgs f ts = some r → pArgs g ts = some r) := by
  induction h with
  | refl => exact ⟨fun _ _ h => h, fun _ _ _ h => h, fun _ _ h => h, fun _ _ _ h => h, fun _ _ h => h, fun _ _ h => h⟩
  | step _ ih =>
    obtain ⟨a1, a2, a3, a4, a5, a6⟩ := ih
    obtain ⟨b1, b2, b3, b4, b5, b6⟩ := mono_all _
    exact ⟨fun _ _ h => b1 _ _ (a1 _ _ h), fun _ _ _ h => b2 _ _ _ (a2 _ _ _ h), fun _ _ h => b3 _ _ (a3 _ _ h),
           fun _ _ _ h => b4 _ _ _ (a4 _ _ _ h), fun _ _ h => b5 _ _ (a5 _ _ h), fun _ _ h => b6 _ _ (a6 _ _ h)⟩

/-! big-step reading of the parser: "for some fuel" -/
def PAtom (ts : List Tok) (r : CalcArg × List Tok) : Prop := ∃ f, pAtom f ts = some r
def PProdLoop (acc : CalcArg) (ts : List Tok) (r : CalcArg × List Tok) : Prop := ∃ f, pProdLoop f acc ts = some r
def PProd (ts : List Tok) (r : CalcArg × List Tok) : Prop := ∃ f, pProd f ts = some r
def PSumLoop (acc : CalcArg) (ts : List Tok) (r : CalcArg × List Tok) : Prop := ∃ f, pSumLoop f acc ts = some r
def PSum (ts : List Tok) (r : CalcArg × List Tok) : Prop := ∃ f, pSum f ts = some r
def PArgs (ts : List Tok) (r : CalcArgs × List Tok) : Prop := ∃ f, pArgs f ts = some r

theorem PAtom.num (n : Rat) (u : CUnit) (ts : List Tok) : PAtom (.num n u :: ts) (.number n u, ts) := ⟨1, rfl⟩
theorem PAtom.atom (id : Nat) (ts : List Tok) : PAtom (.atom id :: ts) (.str id false, ts) := ⟨1, rfl⟩

theorem PAtom.paren {ts ts' : List Tok} {e : CalcArg} (h : PSum ts (e, .rp :: ts')) :
    PAtom (.lp :: ts) (e, ts') := by
  obtain ⟨f, hf⟩ := h
  exact ⟨f + 1, by rw [pAtom_succ]; simp only [hf]⟩

theorem PAtom.call {ts ts' : List Tok} {nm : CName} {as : CalcArgs} (h : PArgs ts (as, .rp :: ts')) :
    PAtom (.fn nm :: ts) (.calculation nm as, ts') := by
  obtain ⟨f, hf⟩ := h
  exact ⟨f + 1, by rw [pAtom_succ]; simp only [hf]⟩

def notMulDiv : List Tok → Bool
  | .op .mul :: _ => false
  | .op .div :: _ => false
  | _ => true

def notPlusMinus : List Tok → Bool
  | .op .plus :: _ => false
  | .op .minus :: _ => false
  | _ => true

def notComma : List Tok → Bool
  | .comma :: _ => false
  | _ => true

theorem PProdLoop.stop (acc : CalcArg) (ts : List Tok) (h : notMulDiv ts = true) : PProdLoop acc ts (acc, ts) := by
  refine ⟨1, ?_⟩
  rw [pProdLoop_succ]
  split <;> simp_all [notMulDiv]

theorem PSumLoop.stop (acc : CalcArg) (ts : List Tok) (h : notPlusMinus ts = true) : PSumLoop acc ts (acc, ts) := by
  refine ⟨1, ?_⟩
  rw [pSumLoop_succ]
  split <;> simp_all [notPlusMinus]

def isMulDiv : Op → Bool
  | .mul | .div => true
  | _ => false

def isPlusMinus : Op → Bool
  | .plus | .minus => true
  | _ => false

theorem PProdLoop.step {acc b : CalcArg} {o : Op} {ts ts' : List Tok} {r : CalcArg × List Tok}
    (ho : isMulDiv o = true) (h1 : PAtom ts (b, ts')) (h2 : PProdLoop (.operation acc o b) ts' r) :
    PProdLoop acc (.op o :: ts) r := by
  obtain ⟨f1, h1⟩ := h1
  obtain ⟨f2, h2⟩ := h2
  have m1 := (mono_le (Nat.le_max_left f1 f2)).1 _ _ h1
  have m2 := (mono_le (Nat.le_max_right f1 f2)).2.1 _ _ _ h2
  refine ⟨max f1 f2 + 1, ?_⟩
  rw [pProdLoop_succ]
  cases o <;> simp [isMulDiv] at ho <;> simp only [m1, m2]

theorem PProd.intro {a : CalcArg} {ts ts' : List Tok} {r : CalcArg × List Tok}
    (h1 : PAtom ts (a, ts')) (h2 : PProdLoop a ts' r) : PProd ts r := by
  obtain ⟨f1, h1⟩ := h1
  obtain ⟨f2, h2⟩ := h2
  have m1 := (mono_le (Nat.le_max_left f1 f2)).1 _ _ h1
  have m2 := (mono_le (Nat.le_max_right f1 f2)).2.1 _ _ _ h2
  exact ⟨max f1 f2 + 1, by rw [pProd_succ]; simp only [m1, m2]⟩

theorem PSumLoop.step {acc b : CalcArg} {o : Op} {ts ts' : List Tok} {r : CalcArg × List Tok}
    (ho : isPlusMinus o = true) (h1 : PProd ts (b, ts')) (h2 : PSumLoop (.operation acc o b) ts' r) :
    PSumLoop acc (.op o :: ts) r := by
  obtain ⟨f1, h1⟩ := h1
  obtain ⟨f2, h2⟩ := h2
  have m1 := (mono_le (Nat.le_max_left f1 f2)).2.2.1 _ _ h1
  have m2 := (mono_le (Nat.le_max_right f1 f2)).2.2.2.1 _ _ _ h2
  refine ⟨max f1 f2 + 1, ?_⟩
  rw [pSumLoop_succ]
  cases o <;> simp [isPlusMinus] at ho <;> simp only [m1, m2]

theorem PSum.intro {a : CalcArg} {ts ts' : List Tok} {r : CalcArg × List Tok}
    (h1 : PProd ts (a, ts')) (h2 : PSumLoop a ts' r) : PSum ts r := by
  obtain ⟨f1, h1⟩ := h1
  obtain ⟨f2, h2⟩ := h2
  have m1 := (mono_le (Nat.le_max_left f1 f2)).2.2.1 _ _ h1
  have m2 := (mono_le (Nat.le_max_right f1 f2)).2.2.2.1 _ _ _ h2
  exact ⟨max f1 f2 + 1, by rw [pSum_succ]; simp only [m1, m2]⟩

theorem PArgs.one {a : CalcArg} {ts ts' : List Tok} (h : PSum ts (a, ts')) (hc : notComma ts' = true) :
    PArgs ts (.cons a .nil, ts') := by
  obtain ⟨f, hf⟩ := h
  refine ⟨f + 1, ?_⟩
  rw [pArgs_succ]; simp only [hf]
  split <;> simp_all [notComma]

theorem PArgs.more {a : CalcArg} {as : CalcArgs} {ts ts' ts'' : List Tok}
    (h1 : PSum ts (a, .comma :: ts')) (h2 : PArgs ts' (as, ts'')) : PArgs ts (.cons a as, ts'') := by
  obtain ⟨f1, h1⟩ := h1
  obtain ⟨f2, h2⟩ := h2
  have m1 := (mono_le (Nat.le_max_left f1 f2)).2.2.2.2.1 _ _ h1
  have m2 := (mono_le (Nat.le_max_right f1 f2)).2.2.2.2.2 _ _ h2
  exact ⟨max f1 f2 + 1, by rw [pArgs_succ]; simp only [m1, m2]⟩

end Grass.Calc
