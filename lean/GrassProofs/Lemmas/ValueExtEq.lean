import Grass.Value
import GrassProofs.Lemmas.ValueExt
/-
  Helper lemmas for C09, extended universe (round 3), part 2:
  `xeq sw a b = veq sw (enc a) (enc b)` and the transfer of the guards along `enc`.
-/
set_option linter.unusedSimpArgs false
set_option linter.unusedVariables false
namespace Grass.Value

/-- new leaf against an old leaf kind -/
theorem veq_leaf_simple (sw : Sw) (t : List Char) (r : VList) :
    veq sw (leaf t r) .null = false ∧ (∀ b, veq sw (leaf t r) (.bool b) = false) ∧
    (∀ n u, veq sw (leaf t r) (.num n u) = false) ∧ (∀ s q, veq sw (leaf t r) (.str s q) = false) ∧
    (∀ a b c d, veq sw (leaf t r) (.color a b c d) = false) ∧ (∀ p, veq sw (leaf t r) (.map p) = false) := by
  simp [leaf, veq]

theorem veq_simple_leaf (sw : Sw) (t : List Char) (r : VList) :
    veq sw .null (leaf t r) = false ∧ (∀ b, veq sw (.bool b) (leaf t r) = false) ∧
    (∀ n u, veq sw (.num n u) (leaf t r) = false) ∧ (∀ s q, veq sw (.str s q) (leaf t r) = false) ∧
    (∀ a b c d, veq sw (.color a b c d) (leaf t r) = false) ∧ (∀ p, veq sw (.map p) (leaf t r) = false) := by
  simp [leaf, veq]

/-- the encoding of a calculation -/
def encCalc (nm : CName) (as : CArgs) : Value := leaf ['c'] (.cons (.str (nameTag nm) false) (encCs as))

theorem encCalc_eq (sw : Sw) (n1 n2 : CName) (as bs : CArgs) :
    veq sw (encCalc n1 as) (encCalc n2 bs) = (decide (n1 = n2) && cargsEq sw as bs) := by
  simp [encCalc, leaf, veq, veqL, nameTag_eq_iff, encCs_eq]

theorem enc_calc (nm : CName) (as : CArgs) : enc (.calc nm as) = encCalc nm as := by simp [enc, encCalc]

/-- an encoded number against a leaf that is not a `u` leaf -/
theorem veq_encNum_leaf (sw : Sw) (n : Num) (u : XU) (t : List Char) (r : VList) (h : t ≠ ['u']) :
    veq sw (encNum n u) (leaf t r) = false ∧ veq sw (leaf t r) (encNum n u) = false := by
  rcases encNum_shape n u with ⟨a, e⟩ | ⟨r', e⟩
  · rw [e]; exact ⟨(veq_simple_leaf sw t r).2.2.1 _ _, (veq_leaf_simple sw t r).2.2.1 _ _⟩
  · rw [e]; exact ⟨veq_leaf_leaf_ne sw _ _ _ _ (fun e => h e.symm), veq_leaf_leaf_ne sw _ _ _ _ h⟩

theorem veq_encNum_simple (sw : Sw) (n : Num) (u : XU) :
    veq sw (encNum n u) .null = false ∧ (∀ b, veq sw (encNum n u) (.bool b) = false) ∧
    (∀ s q, veq sw (encNum n u) (.str s q) = false) ∧
    (∀ a b c d, veq sw (encNum n u) (.color a b c d) = false) ∧ (∀ p, veq sw (encNum n u) (.map p) = false) ∧
    veq sw .null (encNum n u) = false ∧ (∀ b, veq sw (.bool b) (encNum n u) = false) ∧
    (∀ s q, veq sw (.str s q) (encNum n u) = false) ∧
    (∀ a b c d, veq sw (.color a b c d) (encNum n u) = false) ∧ (∀ p, veq sw (.map p) (encNum n u) = false) := by
  cases u <;> simp [encNum, leaf, veq]

theorem veq_encNum_list (sw : Sw) (n : Num) (u : XU) (es : XVList) (sp : Sep) (br : Bool) :
    veq sw (encNum n u) (.list (encL es) sp br) = false ∧ veq sw (.list (encL es) sp br) (encNum n u) = false := by
  rcases encNum_shape n u with ⟨a, e⟩ | ⟨r', e⟩
  · rw [e]; simp [veq]
  · rw [e]; exact ⟨veq_leaf_list sw _ isTag_u _ _ _ _, veq_list_leaf sw _ isTag_u _ _ _ _⟩

theorem veq_encNum_arglist (sw : Sw) (n : Num) (u : XU) (es : VList) (kw : VPairs) (sp : Sep) :
    veq sw (encNum n u) (.arglist es kw sp) = false ∧ veq sw (.arglist es kw sp) (encNum n u) = false := by
  rcases encNum_shape n u with ⟨a, e⟩ | ⟨r', e⟩
  · rw [e]; simp [veq]
  · rw [e]; exact ⟨veq_leaf_arglist sw _ _ _ _ _, veq_arglist_leaf sw _ _ _ _ _⟩

mutual
  theorem enc_eq (sw : Sw) : ∀ (a b : XV), veq sw (enc a) (enc b) = xeq sw a b
    | .null, b => by
      cases b <;> simp only [enc, xeq, veq]
      · exact (veq_encNum_simple sw _ _).2.2.2.2.2.1
      · exact (veq_simple_leaf sw _ _).1
      · rename_i f; obtain ⟨t, r, _, _, _, e⟩ := encFn_shape f; rw [e]; exact (veq_simple_leaf sw _ _).1
    | .bool x, b => by
      cases b <;> simp only [enc, xeq, veq]
      · exact (veq_encNum_simple sw _ _).2.2.2.2.2.2.1 _
      · exact (veq_simple_leaf sw _ _).2.1 _
      · rename_i f; obtain ⟨t, r, _, _, _, e⟩ := encFn_shape f; rw [e]; exact (veq_simple_leaf sw _ _).2.1 _
    | .str s q, b => by
      cases b <;> simp only [enc, xeq, veq]
      · exact (veq_encNum_simple sw _ _).2.2.2.2.2.2.2.1 _ _
      · simp
      · exact (veq_simple_leaf sw _ _).2.2.2.1 _ _
      · rename_i f; obtain ⟨t, r, _, _, _, e⟩ := encFn_shape f; rw [e]; exact (veq_simple_leaf sw _ _).2.2.2.1 _ _
    | .color r g b' a', b => by
      cases b <;> simp only [enc, xeq, veq]
      · exact (veq_encNum_simple sw _ _).2.2.2.2.2.2.2.2.1 _ _ _ _
      · exact (veq_simple_leaf sw _ _).2.2.2.2.1 _ _ _ _
      · rename_i f; obtain ⟨t, r, _, _, _, e⟩ := encFn_shape f; rw [e]; exact (veq_simple_leaf sw _ _).2.2.2.2.1 _ _ _ _
    | .num n u, b => by
      cases b <;> simp only [enc, xeq]
      · exact (veq_encNum_simple sw _ _).1
      · exact (veq_encNum_simple sw _ _).2.1 _
      · exact encNum_eq sw _ _ _ _
      · exact (veq_encNum_simple sw _ _).2.2.1 _ _
      · exact (veq_encNum_simple sw _ _).2.2.2.1 _ _ _ _
      · exact (veq_encNum_leaf sw _ _ _ _ (by simp)).1
      · rename_i f; obtain ⟨t, r, _, h1, _, e⟩ := encFn_shape f; rw [e]; exact (veq_encNum_leaf sw _ _ _ _ h1).1
      · exact (veq_encNum_list sw _ _ _ _ _).1
      · exact (veq_encNum_simple sw _ _).2.2.2.2.1 _
      · exact (veq_encNum_arglist sw _ _ _ _ _).1
    | .calc nm as, b => by
      rw [enc_calc]
      cases b <;> simp only [enc, xeq]
      · exact (veq_leaf_simple sw _ _).1
      · exact (veq_leaf_simple sw _ _).2.1 _
      · exact (veq_encNum_leaf sw _ _ _ _ (by simp)).2
      · exact (veq_leaf_simple sw _ _).2.2.2.1 _ _
      · exact (veq_leaf_simple sw _ _).2.2.2.2.1 _ _ _ _
      · exact encCalc_eq sw _ _ _ _
      · rename_i f; obtain ⟨t, r, _, _, h2, e⟩ := encFn_shape f; rw [e]
        exact veq_leaf_leaf_ne sw _ _ _ _ (fun e => h2 e.symm)
      · exact veq_leaf_list sw _ isTag_c _ _ _ _
      · exact (veq_leaf_simple sw _ _).2.2.2.2.2 _
      · exact veq_leaf_arglist sw _ _ _ _ _
    | .fn f, b => by
      cases b <;> simp only [enc, xeq]
      · obtain ⟨t, r, _, _, _, e⟩ := encFn_shape f; rw [e]; exact (veq_leaf_simple sw _ _).1
      · obtain ⟨t, r, _, _, _, e⟩ := encFn_shape f; rw [e]; exact (veq_leaf_simple sw _ _).2.1 _
      · obtain ⟨t, r, _, h1, _, e⟩ := encFn_shape f; rw [e]; exact (veq_encNum_leaf sw _ _ _ _ h1).2
      · obtain ⟨t, r, _, _, _, e⟩ := encFn_shape f; rw [e]; exact (veq_leaf_simple sw _ _).2.2.2.1 _ _
      · obtain ⟨t, r, _, _, _, e⟩ := encFn_shape f; rw [e]; exact (veq_leaf_simple sw _ _).2.2.2.2.1 _ _ _ _
      · obtain ⟨t, r, _, _, h2, e⟩ := encFn_shape f; rw [e]; exact veq_leaf_leaf_ne sw _ _ _ _ h2
      · exact encFn_eq sw _ _
      · obtain ⟨t, r, ht, _, _, e⟩ := encFn_shape f; rw [e]; exact veq_leaf_list sw _ ht _ _ _ _
      · obtain ⟨t, r, _, _, _, e⟩ := encFn_shape f; rw [e]; exact (veq_leaf_simple sw _ _).2.2.2.2.2 _
      · obtain ⟨t, r, _, _, _, e⟩ := encFn_shape f; rw [e]; exact veq_leaf_arglist sw _ _ _ _ _
    | .list l1 s1 b1, b => by
      cases b <;> simp only [enc, xeq]
      · simp [veq]
      · simp [veq]
      · exact (veq_encNum_list sw _ _ _ _ _).2
      · simp [veq]
      · simp [veq]
      · exact veq_list_leaf sw _ isTag_c _ _ _ _
      · rename_i f; obtain ⟨t, r, ht, _, _, e⟩ := encFn_shape f; rw [e]; exact veq_list_leaf sw _ ht _ _ _ _
      · rename_i l2 s2 b2; simp only [veq, encL_eq sw l1 l2]
      · simp [veq]
      · rename_i l2 k2 s2; simp only [veq, encL_eq sw l1 l2]
    | .map p1, b => by
      cases b <;> simp only [enc, xeq]
      · simp [veq]
      · simp [veq]
      · exact (veq_encNum_simple sw _ _).2.2.2.2.2.2.2.2.2 _
      · simp [veq]
      · simp [veq]
      · exact (veq_simple_leaf sw _ _).2.2.2.2.2 _
      · rename_i f; obtain ⟨t, r, _, _, _, e⟩ := encFn_shape f; rw [e]; exact (veq_simple_leaf sw _ _).2.2.2.2.2 _
      · simp [veq]
      · rename_i p2; simp only [veq, encP_length, encSub_eq sw p1 p2]
      · simp [veq]
    | .arglist l1 k1 s1, b => by
      cases b <;> simp only [enc, xeq]
      · simp [veq]
      · simp [veq]
      · exact (veq_encNum_arglist sw _ _ _ _ _).2
      · simp [veq]
      · simp [veq]
      · exact veq_arglist_leaf sw _ _ _ _ _
      · rename_i f; obtain ⟨t, r, _, _, _, e⟩ := encFn_shape f; rw [e]; exact veq_arglist_leaf sw _ _ _ _ _
      · rename_i l2 s2 b2; simp only [veq, encL_eq sw l1 l2]
      · simp [veq]
      · rename_i l2 k2 s2; simp only [veq, encL_eq sw l1 l2, encKw_eq sw k1 k2]
  theorem encL_eq (sw : Sw) : ∀ (l1 l2 : XVList), veqL sw (encL l1) (encL l2) = xeqL sw l1 l2
    | .nil, l2 => by cases l2 <;> simp [encL, veqL, xeqL]
    | .cons a t, l2 => by
      cases l2
      · simp [encL, veqL, xeqL]
      · rename_i b u; simp only [encL, veqL, xeqL, enc_eq sw a b, encL_eq sw t u]
  theorem encKw_eq (sw : Sw) : ∀ (k1 k2 : XVPairs), veqKw sw (encP k1) (encP k2) = xeqKw sw k1 k2
    | .nil, k2 => by cases k2 <;> simp [encP, veqKw, xeqKw]
    | .cons k v t, k2 => by
      cases k2
      · simp [encP, veqKw, xeqKw]
      · rename_i k' v' u
        simp only [encP, veqKw, xeqKw, enc_eq sw k k', enc_eq sw v v', encKw_eq sw t u]
  theorem encSub_eq (sw : Sw) : ∀ (p q : XVPairs), subP sw (encP p) (encP q) = xsubP sw p q
    | .nil, q => by simp [encP, subP, xsubP]
    | .cons k v t, q => by
      simp only [encP, subP, xsubP, encSub_eq sw t q]
      rw [any_enc _ (fun k2 v2 => xeq sw k k2 && xeq sw v v2)
        (fun k2 v2 => by rw [enc_eq sw k k2, enc_eq sw v v2]) q]
end

/-! ### the guards along `enc` -/

theorem noNaN_encNum (n : Num) (u : XU) : noNaN (encNum n u) = !n.isNaN := by
  have hU : ∀ l, noNaNL (encUs l) = true := by
    intro l; induction l with
    | nil => rfl
    | cons a t ih => simp [encUs, noNaNL, encU, noNaN, ih]
  cases u <;> simp [encNum, leaf, noNaN, noNaNL, hU]

mutual
  theorem noNaN_encC : ∀ (a : CArg), noNaN (encC a) = cargNoNaN a
    | .number n u => by simp only [encC, cargNoNaN]; exact noNaN_encNum n u
    | .calc nm as => by simp [encC, cargNoNaN, noNaN, noNaNL, noNaN_encCs as]
    | .str s => by simp [encC, cargNoNaN, noNaN]
    | .interp s => by simp [encC, cargNoNaN, noNaN]
    | .op l o r => by simp [encC, cargNoNaN, noNaN, noNaNL, noNaN_encC l, noNaN_encC r]
  theorem noNaN_encCs : ∀ (as : CArgs), noNaNL (encCs as) = cargsNoNaN as
    | .nil => by simp [encCs, cargsNoNaN, noNaNL]
    | .cons a t => by simp [encCs, cargsNoNaN, noNaNL, noNaN_encC a, noNaN_encCs t]
end

theorem noNaN_encFn (f : FnRef) : noNaN (encFn f) = true := by
  cases f <;> simp [encFn, leaf, noNaN, noNaNL]

mutual
  theorem noNaN_enc : ∀ (a : XV), noNaN (enc a) = xnoNaN a
    | .null => by simp [enc, noNaN, xnoNaN]
    | .bool _ => by simp [enc, noNaN, xnoNaN]
    | .num n u => by simp only [enc, xnoNaN]; exact noNaN_encNum n u
    | .str _ _ => by simp [enc, noNaN, xnoNaN]
    | .color .. => by simp [enc, noNaN, xnoNaN]
    | .calc nm as => by simp [enc, leaf, noNaN, noNaNL, xnoNaN, noNaN_encCs as]
    | .fn f => by simp only [enc, xnoNaN]; exact noNaN_encFn f
    | .list es _ _ => by simp only [enc, noNaN, xnoNaN]; exact noNaN_encL es
    | .map ps => by simp only [enc, noNaN, xnoNaN]; exact noNaN_encP ps
    | .arglist es kw _ => by simp only [enc, noNaN, xnoNaN, noNaN_encL es, noNaN_encP kw]
  theorem noNaN_encL : ∀ (l : XVList), noNaNL (encL l) = xnoNaNL l
    | .nil => by simp [encL, noNaNL, xnoNaNL]
    | .cons v t => by simp only [encL, noNaNL, xnoNaNL, noNaN_enc v, noNaN_encL t]
  theorem noNaN_encP : ∀ (p : XVPairs), noNaNP (encP p) = xnoNaNP p
    | .nil => by simp [encP, noNaNP, xnoNaNP]
    | .cons k v t => by simp only [encP, noNaNP, xnoNaNP, noNaN_enc k, noNaN_enc v, noNaN_encP t]
end

theorem inRange_leaf_strs (t : List Char) (r : VList) (h : inRangeL r = true) : inRange (leaf t r) = true := by
  simp [leaf, inRange, inRangeL, h]

theorem inRange_encNum (n : Num) (u : XU) : inRange (encNum n u) = true := by
  have hU : ∀ l, inRangeL (encUs l) = true := by
    intro l; induction l with
    | nil => rfl
    | cons a t ih => simp [encUs, inRangeL, encU, inRange, ih]
  cases u <;> simp [encNum, leaf, inRange, inRangeL, hU]

mutual
  theorem inRange_encC : ∀ (a : CArg), inRange (encC a) = true
    | .number n u => by simp only [encC]; exact inRange_encNum n u
    | .calc nm as => by simp [encC, inRange, inRangeL, inRange_encCs as]
    | .str s => by simp [encC, inRange]
    | .interp s => by simp [encC, inRange]
    | .op l o r => by simp [encC, inRange, inRangeL, inRange_encC l, inRange_encC r]
  theorem inRange_encCs : ∀ (as : CArgs), inRangeL (encCs as) = true
    | .nil => by simp [encCs, inRangeL]
    | .cons a t => by simp [encCs, inRangeL, inRange_encC a, inRange_encCs t]
end

theorem inRange_encFn (f : FnRef) : inRange (encFn f) = true := by
  cases f <;> simp [encFn, leaf, inRange, inRangeL]

mutual
  theorem inRange_enc : ∀ (a : XV), inRange (enc a) = xinRange a
    | .null => by simp [enc, inRange, xinRange]
    | .bool _ => by simp [enc, inRange, xinRange]
    | .num n u => by simp only [enc, xinRange]; exact inRange_encNum n u
    | .str _ _ => by simp [enc, inRange, xinRange]
    | .color .. => by simp [enc, inRange, xinRange]
    | .calc nm as => by simp [enc, leaf, inRange, inRangeL, xinRange, inRange_encCs as]
    | .fn f => by simp only [enc, xinRange]; exact inRange_encFn f
    | .list es _ _ => by simp only [enc, inRange, xinRange]; exact inRange_encL es
    | .map ps => by simp only [enc, inRange, xinRange]; exact inRange_encP ps
    | .arglist es kw _ => by simp only [enc, inRange, xinRange, inRange_encL es, inRange_encP kw]
  theorem inRange_encL : ∀ (l : XVList), inRangeL (encL l) = xinRangeL l
    | .nil => by simp [encL, inRangeL, xinRangeL]
    | .cons v t => by simp only [encL, inRangeL, xinRangeL, inRange_enc v, inRange_encL t]
  theorem inRange_encP : ∀ (p : XVPairs), inRangeP (encP p) = xinRangeP p
    | .nil => by simp [encP, inRangeP, xinRangeP]
    | .cons k v t => by simp only [encP, inRangeP, xinRangeP, inRange_enc k, inRange_enc v, inRange_encP t]
end

/-! `mapWf` -/

theorem distinctKeys_encP (sw : Sw) : ∀ (p : XVPairs), distinctKeys sw (encP p) = xdistinctKeys sw p
  | .nil => by simp [encP, distinctKeys, xdistinctKeys]
  | .cons k v t => by
    simp only [encP, distinctKeys, xdistinctKeys, distinctKeys_encP sw t]
    rw [any_enc (fun k2 _ => veq sw (enc k) k2) (fun k2 _ => xeq sw k k2) (fun k2 _ => enc_eq sw k k2) t]

theorem mapWf_encNum (sw : Sw) (n : Num) (u : XU) : mapWf sw (encNum n u) = true := by
  have hU : ∀ l, mapWfL sw (encUs l) = true := by
    intro l; induction l with
    | nil => rfl
    | cons a t ih => simp [encUs, mapWfL, encU, mapWf, ih]
  cases u <;> simp [encNum, leaf, mapWf, mapWfL, hU]

mutual
  theorem mapWf_encC (sw : Sw) : ∀ (a : CArg), mapWf sw (encC a) = true
    | .number n u => by simp only [encC]; exact mapWf_encNum sw n u
    | .calc nm as => by simp [encC, mapWf, mapWfL, mapWf_encCs sw as]
    | .str s => by simp [encC, mapWf]
    | .interp s => by simp [encC, mapWf]
    | .op l o r => by simp [encC, mapWf, mapWfL, mapWf_encC sw l, mapWf_encC sw r]
  theorem mapWf_encCs (sw : Sw) : ∀ (as : CArgs), mapWfL sw (encCs as) = true
    | .nil => by simp [encCs, mapWfL]
    | .cons a t => by simp [encCs, mapWfL, mapWf_encC sw a, mapWf_encCs sw t]
end

theorem mapWf_encFn (sw : Sw) (f : FnRef) : mapWf sw (encFn f) = true := by
  cases f <;> simp [encFn, leaf, mapWf, mapWfL]

mutual
  theorem mapWf_enc (sw : Sw) : ∀ (a : XV), mapWf sw (enc a) = xmapWf sw a
    | .null => by simp [enc, mapWf, xmapWf]
    | .bool _ => by simp [enc, mapWf, xmapWf]
    | .num n u => by simp only [enc, xmapWf]; exact mapWf_encNum sw n u
    | .str _ _ => by simp [enc, mapWf, xmapWf]
    | .color .. => by simp [enc, mapWf, xmapWf]
    | .calc nm as => by simp [enc, leaf, mapWf, mapWfL, xmapWf, mapWf_encCs sw as]
    | .fn f => by simp only [enc, xmapWf]; exact mapWf_encFn sw f
    | .list es _ _ => by simp only [enc, mapWf, xmapWf]; exact mapWf_encL sw es
    | .map ps => by simp only [enc, mapWf, xmapWf, distinctKeys_encP, mapWf_encP sw ps]
    | .arglist es kw _ => by simp only [enc, mapWf, xmapWf, mapWf_encL sw es, mapWf_encP sw kw]
  theorem mapWf_encL (sw : Sw) : ∀ (l : XVList), mapWfL sw (encL l) = xmapWfL sw l
    | .nil => by simp [encL, mapWfL, xmapWfL]
    | .cons v t => by simp only [encL, mapWfL, xmapWfL, mapWf_enc sw v, mapWf_encL sw t]
  theorem mapWf_encP (sw : Sw) : ∀ (p : XVPairs), mapWfP sw (encP p) = xmapWfP sw p
    | .nil => by simp [encP, mapWfP, xmapWfP]
    | .cons k v t => by simp only [encP, mapWfP, xmapWfP, mapWf_enc sw k, mapWf_enc sw v, mapWf_encP sw t]
end

end Grass.Value
