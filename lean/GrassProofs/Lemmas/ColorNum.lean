import Grass.Color
/-
  Helper lemmas for C15: facts about the number helpers of Grass/Color.lean
  (floor/ceil, `fuzzyRound`, `roundQ`, `clamp`, `sassMod`, `fuzzyEq`).
-/
namespace Grass.Color

theorem floor_eq {x : Rat} {n : Int} (h1 : (n : Rat) ≤ x) (h2 : x < ((n + 1 : Int) : Rat)) : x.floor = n := by
  have a := Rat.le_floor_iff.mpr h1
  have b := Rat.floor_lt_iff.mpr h2
  omega

theorem isInt_intCast (n : Int) : isInt (n : Rat) = true := by
  simp [isInt, Rat.den_intCast]

theorem isInt_natCast (n : Nat) : isInt (n : Rat) = true := by
  simp [isInt, Rat.den_natCast]

theorem eq_intCast_of_isInt {x : Rat} (h : isInt x = true) : x = ((x.num : Int) : Rat) := by
  apply Rat.ext
  · simp [Rat.num_intCast]
  · simp [isInt] at h; simp [Rat.den_intCast, h]

theorem floor_le_ceil (x : Rat) : x.floor ≤ x.ceil := by
  have h1 := Rat.floor_le x
  have h2 := @Rat.le_ceil x
  have : ((x.floor : Int) : Rat) ≤ ((x.ceil : Int) : Rat) := Rat.le_trans h1 h2
  exact Rat.intCast_le_intCast.mp this

theorem floor_nonneg {x : Rat} (h : 0 ≤ x) : 0 ≤ x.floor := by
  have : ((0 : Int) : Rat) ≤ x := by simpa using h
  exact Rat.le_floor_iff.mpr this

theorem ceil_le_of_le {x : Rat} {n : Int} (h : x ≤ (n : Rat)) : x.ceil ≤ n := Rat.ceil_le_iff.mpr h

theorem fuzzyRoundI_cases (x : Rat) : fuzzyRoundI x = x.floor ∨ fuzzyRoundI x = x.ceil := by
  unfold fuzzyRoundI
  split <;> split <;> simp

theorem fuzzyRoundI_bounds {x : Rat} {n : Int} (h0 : 0 ≤ x) (h1 : x ≤ (n : Rat)) :
    0 ≤ fuzzyRoundI x ∧ fuzzyRoundI x ≤ n := by
  have a := floor_nonneg h0
  have b := ceil_le_of_le h1
  have c := floor_le_ceil x
  rcases fuzzyRoundI_cases x with h | h <;> rw [h] <;> omega

theorem fuzzyRound_isInt (x : Rat) : isInt (fuzzyRound x) = true := isInt_intCast _

theorem roundQ_isInt (x : Rat) : isInt (roundQ x) = true := isInt_intCast _

theorem fuzzyRound_bounds {x : Rat} (h0 : 0 ≤ x) (h1 : x ≤ 255) :
    0 ≤ fuzzyRound x ∧ fuzzyRound x ≤ 255 := by
  have h1' : x ≤ ((255 : Int) : Rat) := by simpa using h1
  have ⟨a, b⟩ := fuzzyRoundI_bounds h0 h1'
  unfold fuzzyRound
  constructor
  · exact Rat.intCast_nonneg.mpr a
  · have : ((fuzzyRoundI x : Int) : Rat) ≤ ((255 : Int) : Rat) := Rat.intCast_le_intCast.mpr b
    simpa using this

theorem chanOk_fuzzyRound {x : Rat} (h0 : 0 ≤ x) (h1 : x ≤ 255) : chanOk (fuzzyRound x) = true := by
  have ⟨a, b⟩ := fuzzyRound_bounds h0 h1
  simp [chanOk, fuzzyRound_isInt, a, b]

/-- `clamp` stays between its bounds and returns one of its three arguments. -/
theorem clamp_cases (x lo hi : Rat) (h : lo ≤ hi) :
    (clamp x lo hi = x ∧ lo ≤ x ∧ x ≤ hi) ∨ (clamp x lo hi = lo ∧ x ≤ lo) ∨ (clamp x lo hi = hi ∧ hi ≤ x) := by
  unfold clamp
  grind

theorem clamp_bounds (x lo hi : Rat) (h : lo ≤ hi) : lo ≤ clamp x lo hi ∧ clamp x lo hi ≤ hi := by
  rcases clamp_cases x lo hi h with ⟨e, a, b⟩ | ⟨e, _⟩ | ⟨e, _⟩ <;> rw [e] <;> grind

theorem clamp_id {x lo hi : Rat} (h0 : lo ≤ x) (h1 : x ≤ hi) : clamp x lo hi = x := by
  unfold clamp
  grind

theorem chanOk_clamp {x : Rat} (h : isInt x = true) : chanOk (clamp x 0 255) = true := by
  rcases clamp_cases x 0 255 (by decide +kernel) with ⟨e, a, b⟩ | ⟨e, _⟩ | ⟨e, _⟩ <;> rw [e]
  · simp [chanOk, h, a, b]
  · decide +kernel
  · decide +kernel

theorem chanOk_bounds {x : Rat} (h : chanOk x = true) : isInt x = true ∧ 0 ≤ x ∧ x ≤ 255 := by
  simpa [chanOk, and_assoc] using h

theorem clamp_chanOk {x : Rat} (h : chanOk x = true) : clamp x 0 255 = x := by
  have ⟨_, a, b⟩ := chanOk_bounds h
  exact clamp_id a b


theorem fmod1_intCast (n : Int) : fmod1 (n : Rat) = 0 := by
  unfold fmod1
  split <;> simp [Rat.floor_intCast, Rat.ceil_intCast] <;> grind

theorem fuzzyEq_self (x : Rat) : fuzzyEq x x = true := by simp [fuzzyEq]

theorem fuzzyRoundI_intCast (n : Int) : fuzzyRoundI (n : Rat) = n := by
  unfold fuzzyRoundI
  rw [fmod1_intCast]
  have h1 : fuzzyLt 0 (1/2) = true := by decide +kernel
  have h2 : fuzzyLe 0 (1/2) = true := by decide +kernel
  simp [h1, h2, Rat.floor_intCast]

theorem fuzzyRound_intCast (n : Int) : fuzzyRound (n : Rat) = (n : Rat) := by
  simp [fuzzyRound, fuzzyRoundI_intCast]

theorem fuzzyRound_of_isInt {x : Rat} (h : isInt x = true) : fuzzyRound x = x := by
  rw [eq_intCast_of_isInt h]; exact fuzzyRound_intCast _

theorem roundI_intCast (n : Int) : roundI (n : Rat) = n := by
  unfold roundI
  split
  · apply floor_eq <;> (try simp) <;> grind
  · have : (-(n:Rat) + 1/2).floor = -n := by
      apply floor_eq <;> (try simp) <;> grind
    rw [this]; omega

theorem roundQ_of_isInt {x : Rat} (h : isInt x = true) : roundQ x = x := by
  rw [eq_intCast_of_isInt h]; simp [roundQ, roundI_intCast]

theorem sassMod_bounds (a : Rat) : 0 ≤ sassMod a 360 ∧ sassMod a 360 < 360 := by
  unfold sassMod
  have h1 := Rat.floor_le (a / 360)
  have h2 := Rat.lt_floor_add_one (a / 360)
  simp at h2
  constructor <;> grind

theorem sassMod_id {a : Rat} (h0 : 0 ≤ a) (h1 : a < 360) : sassMod a 360 = a := by
  unfold sassMod
  have : (a / 360).floor = 0 := by
    apply floor_eq <;> (try simp) <;> grind
  rw [this]; simp; grind

end Grass.Color
