import Grass.Diag
import GrassProofs.Lemmas.DiagSpan
/-
  Helper lemmas for C19, part 2b: the whitespace/comment skipping of the parser only drops tokens,
  so the token at which a directive's value begins is a token of the file.
-/
namespace Grass.Diag

theorem skipBlank_sub : ∀ (ts : List Tok) (t : Tok), t ∈ skipBlank ts → t ∈ ts := by
  intro ts
  induction ts with
  | nil => intro t h; simp [skipBlank] at h
  | cons a ts ih =>
    intro t h
    rw [skipBlank] at h
    split at h
    · exact List.mem_cons_of_mem _ (ih t h)
    · exact h

theorem skipLine_sub : ∀ (ts : List Tok) (t : Tok), t ∈ skipLine ts → t ∈ ts := by
  intro ts
  induction ts with
  | nil => intro t h; simp [skipLine] at h
  | cons a ts ih =>
    intro t h
    rw [skipLine] at h
    split at h
    · exact h
    · exact List.mem_cons_of_mem _ (ih t h)

theorem skipLoud_sub : ∀ (ts : List Tok) (star : Bool) (r : List Tok), skipLoud star ts = some r →
    ∀ t, t ∈ r → t ∈ ts := by
  intro ts
  induction ts with
  | nil => intro star r h; simp [skipLoud] at h
  | cons a ts ih =>
    intro star r h t ht
    rw [skipLoud] at h
    split at h
    · exact List.mem_cons_of_mem _ (ih _ _ h t ht)
    · split at h
      · cases h; exact List.mem_cons_of_mem _ ht
      · exact List.mem_cons_of_mem _ (ih _ _ h t ht)

theorem skipWs_sub : ∀ (fuel : Nat) (ts r : List Tok), skipWs fuel ts = some r →
    ∀ t, t ∈ r → t ∈ ts := by
  intro fuel
  induction fuel with
  | zero => intro ts r h; simp [skipWs] at h
  | succ fuel ih =>
    intro ts r h t ht
    rw [skipWs] at h
    split at h
    · rename_i a b rest hb
      have hsub : ∀ u, u ∈ rest → u ∈ ts := fun u hu =>
        skipBlank_sub ts u (by rw [hb]; exact List.mem_cons_of_mem _ (List.mem_cons_of_mem _ hu))
      split at h
      · exact hsub t (skipLine_sub rest t (ih _ _ h t ht))
      · split at h
        · split at h
          · rename_i r' hl
            exact hsub t (skipLoud_sub rest false r' hl t (ih _ _ h t ht))
          · cases h
        · cases h
          exact skipBlank_sub ts t (by rw [hb]; exact ht)
    · cases h
      exact skipBlank_sub ts t ht

theorem expectName_sub : ∀ (name : List Char) (ts r : List Tok), expectName name ts = some r →
    ∀ t, t ∈ r → t ∈ ts := by
  intro name
  induction name with
  | nil =>
    intro ts r h t ht
    cases ts with
    | nil => simp [expectName] at h; subst h; exact ht
    | cons a ts =>
      rw [expectName] at h
      split at h
      · cases h
      · cases h; exact ht
  | cons c cs ih =>
    intro ts r h t ht
    cases ts with
    | nil => simp [expectName] at h
    | cons a ts =>
      rw [expectName] at h
      split at h
      · exact List.mem_cons_of_mem _ (ih ts r h t ht)
      · cases h

theorem dropWhile_sub {α : Type} (p : α → Bool) : ∀ (l : List α) (a : α), a ∈ l.dropWhile p → a ∈ l := by
  intro l
  induction l with
  | nil => intro a h; simp at h
  | cons b l ih =>
    intro a h
    rw [List.dropWhile_cons] at h
    split at h
    · exact List.mem_cons_of_mem _ (ih a h)
    · exact h

/-- The value of a directive begins at a token of the file. -/
theorem exprStart_tok (file : List Char) (site : Nat) (name : List Char) (off : Nat)
    (h : exprStart file site name = some off) : ∃ t, t ∈ tokenize file 0 ∧ t.pos = off := by
  unfold exprStart at h
  split at h
  · cases h
  · rename_i t ts hd
    have hts : ∀ u, u ∈ ts → u ∈ tokenize file 0 := fun u hu =>
      dropWhile_sub _ _ u (by rw [hd]; exact List.mem_cons_of_mem _ hu)
    split at h
    · split at h
      · cases h
      · rename_i r hn
        split at h
        · rename_i u rest hw
          cases h
          exact ⟨u, hts u (expectName_sub name ts r hn u (skipWs_sub _ r _ hw u (List.mem_cons_self ..))), rfl⟩
        · cases h
    · cases h

end Grass.Diag
