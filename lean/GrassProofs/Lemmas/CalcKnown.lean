import GrassProofs.Lemmas.CalcFns
/-
  Helper lemmas for C16 (round 3): operands with known, mutually convertible units reduce to a
  plain number — every step of the simplifier, over the whole unit table.
-/
namespace Grass.Calc

theorem compatible_self_of_left (a b : CUnit) (h : compatible a b = true) : compatible a a = true :=
  compatible_trans a b a h (compatible_symm a b h)

theorem compatible_via (a b g : CUnit) (ha : compatible a g = true) (hb : compatible b g = true) :
    compatible a b = true :=
  compatible_trans a g b ha (compatible_symm b g hb)

theorem numAdd_ok (a b : Num) (hc : compatible a.u b.u = true) :
    ∃ r, numAdd a b = .ok r ∧ (r.u = a.u ∨ r.u = b.u) := by
  unfold numAdd
  split
  · exact ⟨_, rfl, Or.inl rfl⟩
  · split
    · exact ⟨_, rfl, Or.inr rfl⟩
    · split
      · exact ⟨_, rfl, Or.inl rfl⟩
      · have := convert_isSome_of_comparable b.n b.u a.u
          (compatible_comparable _ _ (compatible_symm _ _ hc))
        cases hcv : convert b.n b.u a.u with
        | none => simp [hcv] at this
        | some c => exact ⟨_, rfl, Or.inl rfl⟩

theorem numSub_ok (a b : Num) (hc : compatible a.u b.u = true) :
    ∃ r, numSub a b = .ok r ∧ (r.u = a.u ∨ r.u = b.u) := by
  unfold numSub
  split
  · exact ⟨_, rfl, Or.inl rfl⟩
  · split
    · exact ⟨_, rfl, Or.inr rfl⟩
    · split
      · exact ⟨_, rfl, Or.inl rfl⟩
      · have := convert_isSome_of_comparable b.n b.u a.u
          (compatible_comparable _ _ (compatible_symm _ _ hc))
        cases hcv : convert b.n b.u a.u with
        | none => simp [hcv] at this
        | some c => exact ⟨_, rfl, Or.inl rfl⟩

/-- `+`/`-` of two numbers with compatible units folds to a number (never an operation, an error or a
    panic), in one of the two units. -/
theorem operate_sum_known (cfg : Cfg) (imm : Bool) (op : Op) (hop : op = .plus ∨ op = .minus)
    (a b : Rat) (ua ub : CUnit) (hc : compatible ua ub = true) :
    ∃ n u, operate cfg imm op (.number a ua) (.number b ub) = .ok ⟨.number n u, false⟩ ∧
      (u = ua ∨ u = ub) := by
  have hcmp := compatible_comparable _ _ hc
  rcases hop with e | e <;> subst e
  · obtain ⟨r, hr, hu⟩ := numAdd_ok ⟨a, ua⟩ ⟨b, ub⟩ hc
    refine ⟨r.n, r.u, ?_, hu⟩
    cases imm <;> simp [operate, simplify, hr, Res.bind, hc, hcmp]
  · obtain ⟨r, hr, hu⟩ := numSub_ok ⟨a, ua⟩ ⟨b, ub⟩ hc
    refine ⟨r.n, r.u, ?_, hu⟩
    cases imm <;> simp [operate, simplify, hr, Res.bind, hc, hcmp]

/-- a product with a unitless factor keeps the other factor's unit. -/
theorem numMul_scalar_right (a b : Num) (hb : b.u = ⟨[], []⟩) : (numMul a b).u = a.u := by
  simp [numMul, hb, CUnit.isNone]

theorem numMul_scalar_left (a b : Num) (ha : a.u = ⟨[], []⟩) : (numMul a b).u = b.u := by
  rcases b with ⟨bn, ⟨on, od⟩⟩
  rcases a with ⟨an, au⟩
  simp only [] at ha; subst ha
  unfold numMul
  split
  · rename_i e; simp at e; simp [e]
  · simp only [multiplyUnits, List.isEmpty_nil, Bool.true_and, anyConvertible, List.any_nil, Bool.not_false,
      Bool.and_true]
    cases od <;> simp

theorem numDiv_scalar (a b : Num) (hb : b.u = ⟨[], []⟩) :
    numDiv a b = .err .nonFinite ∨ ∃ r, numDiv a b = .ok r ∧ r.u = a.u := by
  unfold numDiv
  split
  · exact Or.inl rfl
  · right; simp [hb, CUnit.isNone]

theorem map_simplify_numbers :
    ∀ (l : List CalcArg), (∀ x ∈ l, ∃ n v, x = .number n v) → l.map simplify = l := by
  intro l
  induction l with
  | nil => intro _; rfl
  | cons x xs ih =>
    intro h
    obtain ⟨n, v, e⟩ := h x (List.mem_cons_self)
    subst e
    simp only [List.map, simplify]
    rw [ih (fun y hy => h y (List.mem_cons_of_mem _ hy))]

theorem extremumLoop_known (isMax : Bool) (g : CUnit) :
    ∀ (rest : List CalcArg) (m : Num), compatible m.u g = true →
      (∀ x ∈ rest, ∃ n v, x = .number n v ∧ compatible v g = true) →
      ∃ r, extremumLoop isMax (some m) rest = .ok (some r, false) ∧ compatible r.u g = true := by
  intro rest
  induction rest with
  | nil => intro m hm _; exact ⟨m, by simp [extremumLoop], hm⟩
  | cons x xs ih =>
    intro m hm h
    obtain ⟨n, u, e, hu⟩ := h x (List.mem_cons_self)
    subst e
    have hmu : compatible m.u u = true := compatible_via _ _ g hm hu
    have hcmp : comparable m.u u = true := compatible_comparable _ _ hmu
    have hcv := convert_isSome_of_comparable n u m.u (compatible_comparable _ _ (compatible_symm _ _ hmu))
    simp only [extremumLoop, hcmp, Bool.not_true, Bool.false_eq_true, if_false]
    cases hc : convert n u m.u with
    | none => simp [hc] at hcv
    | some c =>
      simp only []
      have hrest : ∀ y ∈ xs, ∃ n v, y = .number n v ∧ compatible v g = true :=
        fun y hy => h y (List.mem_cons_of_mem _ hy)
      by_cases hlt : (if isMax = true then m.n < c else m.n > c)
      · obtain ⟨r, hr, hru⟩ := ih ⟨n, u⟩ hu hrest
        refine ⟨r, ?_, hru⟩
        simp [hlt, hr, Res.bind, hmu]
      · obtain ⟨r, hr, hru⟩ := ih m hm hrest
        refine ⟨r, ?_, hru⟩
        simp [hlt, hr, Res.bind, hmu]

/-- `min()`/`max()` over numbers whose units are all compatible with `g` reduce to one of them. -/
theorem extremumFn_known (cfg : Cfg) (isMax : Bool) (g : CUnit) (args : List CalcArg) (hne : args ≠ [])
    (h : ∀ x ∈ args, ∃ n v, x = .number n v ∧ compatible v g = true) :
    ∃ n u, extremumFn cfg isMax args = .ok ⟨.number n u, false⟩ ∧ compatible u g = true := by
  unfold extremumFn
  simp only []
  rw [map_simplify_numbers args (fun x hx => by obtain ⟨n, v, e, _⟩ := h x hx; exact ⟨n, v, e⟩)]
  cases args with
  | nil => exact absurd rfl hne
  | cons x xs =>
    obtain ⟨n, u, e, hu⟩ := h x (List.mem_cons_self)
    subst e
    obtain ⟨r, hr, hru⟩ := extremumLoop_known isMax g xs ⟨n, u⟩ hu
      (fun y hy => h y (List.mem_cons_of_mem _ hy))
    refine ⟨r.n, r.u, ?_, hru⟩
    simp [extremumLoop, hr, Res.bind]

theorem clampReduce_known (cfg : Cfg) (mn v mx : Num) (g : CUnit)
    (h1 : compatible mn.u g = true) (h2 : compatible v.u g = true) (h3 : compatible mx.u g = true) :
    ∃ r, clampReduce cfg mn v mx = .ok r ∧ compatible r.u g = true := by
  have c1 := convert_isSome_of_comparable mn.n mn.u v.u (compatible_comparable _ _ (compatible_via _ _ g h1 h2))
  have c2 := convert_isSome_of_comparable mx.n mx.u v.u (compatible_comparable _ _ (compatible_via _ _ g h3 h2))
  have c3 := convert_isSome_of_comparable mx.n mx.u mn.u (compatible_comparable _ _ (compatible_via _ _ g h3 h1))
  unfold clampReduce
  cases e1 : convert mn.n mn.u v.u with
  | none => simp [e1] at c1
  | some a =>
    cases e2 : convert mx.n mx.u v.u with
    | none => simp [e2] at c2
    | some b =>
      cases e3 : convert mx.n mx.u mn.u with
      | none => simp [e3] at c3
      | some c =>
        simp only []
        split
        · exact ⟨_, rfl, h1⟩
        · split
          · split
            · exact ⟨_, rfl, h1⟩
            · split
              · exact ⟨_, rfl, h3⟩
              · exact ⟨_, rfl, h2⟩
          · split
            · exact ⟨_, rfl, h3⟩
            · exact ⟨_, rfl, h2⟩

/-- `clamp()` over three numbers whose units are all compatible with `g` reduces to one of them. -/
theorem clampFn_known (cfg : Cfg) (g : CUnit) (a b c : Rat) (ua ub uc : CUnit)
    (h1 : compatible ua g = true) (h2 : compatible ub g = true) (h3 : compatible uc g = true) :
    ∃ n u, clampFn cfg [.number a ua, .number b ub, .number c uc] = .ok ⟨.number n u, false⟩ ∧
      compatible u g = true := by
  have hab := compatible_via _ _ g h1 h2
  have hac := compatible_via _ _ g h1 h3
  obtain ⟨r, hr, hru⟩ := clampReduce_known cfg ⟨a, ua⟩ ⟨b, ub⟩ ⟨c, uc⟩ g h1 h2 h3
  refine ⟨r.n, r.u, ?_, hru⟩
  simp [clampFn, simplify, hab, hac, compatible_comparable _ _ hab, compatible_comparable _ _ hac, hr, Res.bind]

end Grass.Calc
