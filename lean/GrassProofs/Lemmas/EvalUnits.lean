import Grass.Eval
import GrassProofs.Lemmas.EvalSem
/-
  C03 growth (round 3): theorems about the parts of the reference evaluator added in this round —
  the unit algebra of division and multiplication (`multiplyUnits`, written from
  value/sass_number.rs:55), incompatible-unit errors, laziness of `if()`, interpolation of strings,
  and the witness of the known finding N5 (`null + "quoted"`).
  The theorems quantify over ALL unit names (not only `knownUnits`): what they use is only that
  equal names cancel.
-/
namespace Grass.Eval

/-! ### division: unit algebra for numbers with one unit -/

/-- `x u / y u` is unitless, `x u / y` keeps `u`, `x / y u` has the unit `u^-1`, `x u * y u` has
    `u*u`, and `(x u*v) / y v` is back to `u`. -/
theorem C03_div_unit_algebra (u v : String) (n d : List String) :
    divUnits [u] [] [u] [] = ([], []) ∧
    divUnits n d [] [] = (n, d) ∧
    divUnits [] [] [u] [] = ([], [u]) ∧
    mulUnits [u] [] [u] [] = ([u, u], []) ∧
    mulUnits n d [] [] = (n, d) ∧
    divUnits [u, v] [] [v] [] = ([u], []) := by
  refine ⟨?_, ?_, ?_, ?_, ?_, ?_⟩
  · simp [divUnits, multiplyUnits, anyShared, cancelLoop, removeFirst]
  · simp [divUnits]
  · simp [divUnits, multiplyUnits, anyShared]
  · simp [mulUnits, multiplyUnits, anyShared, cancelLoop, removeFirst]
  · simp [mulUnits]
  · by_cases h : u = v
    · subst h; simp [divUnits, multiplyUnits, anyShared, cancelLoop, removeFirst]
    · have h' : ¬ v = u := fun e => h e.symm
      simp [divUnits, multiplyUnits, anyShared, cancelLoop, removeFirst, h, h']

example : divUnits ["px"] [] ["px"] [] = ([], []) ∧ divUnits ["px", "em"] [] ["em"] [] = (["px"], []) ∧
    multiplyUnits ["px"] ["s"] ["s"] ["px"] = ([], []) := by decide

/-- A number whose unit is not a single unit is "not a valid CSS value" (serializer.rs:551;
    `dimCss` is the `.dim` clause of `Value.toCss`), whatever its value; one with a single unit is
    never rejected for its unit. -/
theorem C03_complex_unit_not_css (q : Rat) (u v : String) :
    dimCss q [] [u] = .error .invalidCss ∧ dimCss q [u, v] [] = .error .invalidCss ∧
    dimCss q [u] [v] = .error .invalidCss ∧ dimCss q [u] [] ≠ .error .invalidCss := by
  refine ⟨?_, ?_, ?_, ?_⟩
  · simp [dimCss, unitsComplex]
  · simp [dimCss, unitsComplex]
  · simp [dimCss, unitsComplex]
  · simp only [dimCss, unitsComplex]
    cases fmtNum q <;> simp

example : unitText [] ["px"] = "px^-1" ∧ unitText ["px", "em"] [] = "px*em" ∧ unitText ["px"] ["s"] = "px/s" := by
  decide +kernel

/-- **Division of numbers with one unit** (the three cases of the brief), on values: for exactly
    representable `x`, `y ≠ 0` with a short dyadic quotient, `x u / y u = x/y` (unitless),
    `x u / y = (x/y) u`, and `x / y u` is the number `(x/y) u^-1`. -/
theorem C03_div_simple_units (x y : Rat) (u : String) (st : St)
    (hx : exactDouble x = true) (hy : exactDouble y = true) (h0 : y ≠ 0) (hq : shortDyadic (x / y) = true) :
    numBin .div x [u] [] y [u] [] st = .ok (.num (x / y)) st ∧
    numBin .div x [u] [] y [] [] st = .ok (.dim (x / y) [u] []) st ∧
    numBin .div x [] [] y [u] [] st = .ok (.dim (x / y) [] [u]) st := by
  have hq' : exactDouble (x / y) = true := by
    unfold shortDyadic at hq; simp only [Bool.and_eq_true] at hq; exact hq.1
  have h0' : (y == 0) = false := by simpa using h0
  obtain ⟨a1, a2, a3, _, _, _⟩ := C03_div_unit_algebra u u [u] []
  have a2' : divUnits [u] [] [] [] = ([u], []) := by simp [divUnits]
  refine ⟨?_, ?_, ?_⟩
  · simp [numBin, hx, hy, h0', hq, hq', a1, mkNum, pure, M.pure]
  · simp [numBin, hx, hy, h0', hq, hq', a2', mkNum, pure, M.pure]
  · simp [numBin, hx, hy, h0', hq, hq', a3, mkNum, pure, M.pure]

example : exactDouble 6 = true ∧ exactDouble 4 = true ∧ shortDyadic ((6 : Rat) / 4) = true := by decide +kernel

/-- **Incompatible units**: `+ - % < > <= >=` on numbers with two DIFFERENT single units fail with
    "Incompatible units" (bin_op.rs:78, :223, :507; value/mod.rs:349) whatever the values are; with
    the SAME unit `+` and `-` keep the unit. -/
theorem C03_incompatible_units (op : BinOp) (x y : Rat) (u v : String) (st : St)
    (hop : op = .add ∨ op = .sub ∨ op = .mod ∨ op = .lt ∨ op = .gt ∨ op = .le ∨ op = .ge)
    (hx : exactDouble x = true) (hy : exactDouble y = true) (huv : u ≠ v) :
    numBin op x [u] [] y [v] [] st = .err .incompatibleUnits st := by
  have hc : unitsComparable [u] [] [v] [] = false := by simp [unitsComparable, huv]
  rcases hop with h | h | h | h | h | h | h <;> subst h <;> simp [numBin, hx, hy, hc, fail]

theorem C03_same_unit_add_sub (x y : Rat) (u : String) (st : St)
    (hx : exactDouble x = true) (hy : exactDouble y = true)
    (hs : exactDouble (x + y) = true) (hd : exactDouble (x - y) = true) :
    numBin .add x [u] [] y [u] [] st = .ok (.dim (x + y) [u] []) st ∧
    numBin .sub x [u] [] y [u] [] st = .ok (.dim (x - y) [u] []) st := by
  have hc : unitsComparable [u] [] [u] [] = true := by simp [unitsComparable]
  have ha : addUnits [u] [] [u] [] = ([u], []) := by simp [addUnits]
  constructor <;> simp [numBin, hx, hy, hc, ha, hs, hd, mkNum, pure, M.pure]

example : exactDouble 3 = true ∧ exactDouble (1 / 2) = true ∧ exactDouble ((3 : Rat) + 1 / 2) = true ∧
    exactDouble ((3 : Rat) - 1 / 2) = true ∧ ("px" : String) ≠ "em" := by decide +kernel

/-! ### `if()` is lazy -/

/-- **`if($c, $a, $b)` evaluates only the chosen branch**: once the condition has evaluated to `x`,
    the result is the evaluation of `a` (truthy) resp. `b` (falsey) in the state the condition left;
    the other branch does not occur in the result, so an erroring, logging or non-terminating
    expression there does not matter. -/
theorem C03_if_lazy (n : Nat) (ctx : Ctx) (c a b : Expr) (st st' : St) (x : Value)
    (hc : (run n).expr ctx c st = .ok x st') :
    (x.truthy = true → (run (n + 1)).expr ctx (.iff c a b) st = (run n).expr ctx a st') ∧
    (x.truthy = false → (run (n + 1)).expr ctx (.iff c a b) st = (run n).expr ctx b st') := by
  have hu : (run (n + 1)).expr ctx (.iff c a b) st =
      (if x.truthy then (run n).expr ctx a else (run n).expr ctx b) st' := by
    show exprF (run n) ctx (.iff c a b) st = _
    unfold exprF
    exact bind_ok _ _ _ _ _ hc
  constructor
  · intro h; rw [hu]; simp [h]
  · intro h; rw [hu]; simp [h]

/-- the unchosen branch may be an undefined variable (an error if it were evaluated) -/
example : (run 3).expr (Ctx.root Dev.spec) (.iff (.lit (.bool true)) (.lit (.num 1)) (.var "undefined")) St.init
    = .ok (.num 1) St.init :=
  (C03_if_lazy 2 (Ctx.root Dev.spec) (.lit (.bool true)) (.lit (.num 1)) (.var "undefined") St.init St.init
    (.bool true) rfl).1 rfl

/-! ### interpolation -/

/-- **Interpolating a string gives its text, quoted or not** (`Value::unquote` before `to_css`):
    the quotes of a quoted string do not appear. -/
theorem C03_interp_string_text (t : String) (q : Bool) (ht : plainTextU t = true) :
    interpText (.str t q) = .ok t := by
  simp [interpText, ht]

/-- … inside `"s#{e}s'"`: the text is `s ++ t ++ s'` whatever the quotes of `e`'s value were. -/
theorem C03_interp_quoted_string (f : Expr → M Value) (e : Expr) (s s' t : String) (q : Bool) (st st' : St)
    (ht : plainTextU t = true) (he : f e st = .ok (.str t q) st') :
    evalInterp f [(s, some e), (s', none)] st = .ok (s ++ t ++ s') st' := by
  have h2 : evalInterp f [(s', none)] st' = .ok s' st' := by
    simp [evalInterp, bind, M.bind, pure, M.pure]
  have hl : liftPrint (interpText (.str t q)) st' = .ok t st' := by
    rw [C03_interp_string_text t q ht]; rfl
  unfold evalInterp
  rw [bind_ok _ _ _ _ _ he, bind_ok _ _ _ _ _ hl, bind_ok _ _ _ _ _ h2]
  rfl

example : plainTextU "bar baz" = true := by decide +kernel

/-! ### N5 (found in round 3, repaired in /repo by 8433dfd): `null + "quoted"` -/

/-- The Sass rule gives the quoted string `foo`, and so does grass as it stands (`Dev.now`, after the
    repair); grass as found (`Dev.asFound`) gave the unquoted string whose text contains the quote
    characters. -/
theorem C03_asFound_null_plus_quoted (st : St) :
    binOp Dev.spec .add .null (.str "foo" true) st = .ok (.str "foo" true) st ∧
    binOp Dev.now .add .null (.str "foo" true) st = .ok (.str "foo" true) st ∧
    binOp Dev.asFound .add .null (.str "foo" true) st = .ok (.str "\"foo\"" false) st := by
  refine ⟨?_, ?_, ?_⟩ <;> rfl

end Grass.Eval
