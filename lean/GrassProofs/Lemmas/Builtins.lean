import Grass.Builtins
/-
  Helper lemmas for C14 (kept apart from the property theorems in GrassProofs/C14.lean):
  integer indices through `fuzzy_as_int`, list plumbing, association-list lemmas for maps under an
  equivalence hypothesis on the keys involved, `deep_merge_impl`.
-/
namespace Grass.Builtins
open Grass.Value

theorem roundHalfAway_intCast (n : Int) : roundHalfAway (n : Rat) = n := by
  unfold roundHalfAway
  split
  · rename_i h
    have h1 : n ≤ ((n : Rat) + 1/2).floor := Rat.le_floor_iff.mpr (by grind)
    have h2 : ((n : Rat) + 1/2).floor < n + 1 := Rat.floor_lt_iff.mpr (by
      have : ((n + 1 : Int) : Rat) = (n : Rat) + 1 := by simp [Rat.intCast_add]
      rw [this]; grind)
    omega
  · rename_i h
    have h1 : -n ≤ (-(n : Rat) + 1/2).floor := Rat.le_floor_iff.mpr (by
      have : ((-n : Int) : Rat) = -(n : Rat) := by simp
      rw [this]; grind)
    have h2 : (-(n : Rat) + 1/2).floor < -n + 1 := Rat.floor_lt_iff.mpr (by
      have : ((-n + 1 : Int) : Rat) = -(n : Rat) + 1 := by simp [Rat.intCast_add]
      rw [this]; grind)
    omega

theorem asInt_intCast (n : Int) : asInt (n : Rat) = some n := by
  unfold asInt
  rw [roundHalfAway_intCast]
  simp [fuzzyEq]


theorem abs_intCast (n : Int) : (n : Rat).abs = ((n.natAbs : Int) : Rat) := by
  unfold Rat.abs
  split
  · rename_i h
    have h0 : 0 ≤ n := Rat.intCast_nonneg.mp h
    congr 1; omega
  · rename_i h
    have h0 : ¬ 0 ≤ n := fun hh => h (Rat.intCast_nonneg.mpr hh)
    rw [← Rat.intCast_neg]; congr 1; omega

theorem abs_intCast_lt (n : Int) (len : Nat) : ((len : Rat) < (n : Rat).abs) ↔ len < n.natAbs := by
  rw [abs_intCast, ← Rat.intCast_natCast len, Rat.intCast_lt_intCast]; omega

theorem isZero_intCast (n : Int) (h : n ≠ 0) : isZero (n : Rat) = false := by
  unfold isZero fuzzyEq
  have h1 : ¬ ((n : Rat) = 0) := by
    intro hh; exact h (Rat.intCast_eq_zero_iff.mp hh)
  have h2 : ¬ (((n : Rat) - 0).abs ≤ epsilon) := by
    intro hh
    have e0 : (n : Rat) - 0 = (n : Rat) := by grind
    rw [e0, abs_intCast] at hh
    have h3 : ((1 : Int) : Rat) ≤ ((n.natAbs : Int) : Rat) := Rat.intCast_le_intCast.mpr (by omega)
    unfold epsilon at hh
    have : ((1 : Int) : Rat) = 1 := rfl
    grind
  simp [h1, h2]

theorem isZero_zero : isZero 0 = true := by simp [isZero, fuzzyEq]

theorem tooBig_intCast (b : Bool) (n : Int) (len : Nat) : tooBig b (n : Rat) len = decide (len < n.natAbs) := by
  unfold tooBig
  rw [asInt_intCast]
  have := abs_intCast_lt n len
  cases b <;> simp [this]

theorem pos_intCast (n : Int) : (0 < (n : Rat)) ↔ 0 < n := Rat.intCast_pos

/-- the 0-based position an integer index denotes -/
def posOf (len : Nat) (n : Int) : Nat := if 0 < n then n.toNat - 1 else len - n.natAbs

theorem nthIndex_int (sw : Sw) (len : Nat) (n : Int) (h0 : n ≠ 0) (hr : n.natAbs ≤ len) :
    nthIndex sw len (n : Rat) = .ok (posOf len n) := by
  unfold nthIndex
  rw [isZero_intCast n h0, asInt_intCast]
  have h1 : ¬ (len < n.natAbs) := by omega
  have h2 : ¬ ((len : Rat) < (n : Rat).abs) := fun h => h1 ((abs_intCast_lt n len).mp h)
  cases sw.rangeByInt <;> simp [h1, h2, posOf, pos_intCast]

theorem nthIndex_int_range (sw : Sw) (len : Nat) (n : Int) (h0 : n ≠ 0) (hr : len < n.natAbs) :
    nthIndex sw len (n : Rat) = .error .indexRange := by
  unfold nthIndex
  rw [isZero_intCast n h0, asInt_intCast]
  have h2 : (len : Rat) < (n : Rat).abs := (abs_intCast_lt n len).mpr hr
  cases sw.rangeByInt <;> simp [hr, h2]

theorem setNthIndex_int (sw : Sw) (len : Nat) (n : Int) (h0 : n ≠ 0) (hr : n.natAbs ≤ len) :
    setNthIndex sw len (n : Rat) = .ok (posOf len n) := by
  unfold setNthIndex
  rw [isZero_intCast n h0, tooBig_intCast, asInt_intCast]
  have : ¬ (len < n.natAbs) := by omega
  simp [this, posOf]

theorem posOf_lt (len : Nat) (n : Int) (h0 : n ≠ 0) (hr : n.natAbs ≤ len) : posOf len n < len := by
  unfold posOf; split <;> omega


theorem toList_ofList (es : List Value) : (VList.ofList es).toList = es := by
  induction es with
  | nil => rfl
  | cons a t ih => simp [VList.ofList, VList.toList, ih]

theorem elems_mkList (es : List Value) (s : Sep) (b : Bool) : elems (mkList es s b) = es := by
  simp [elems, mkList, asList, toList_ofList]

theorem setNthParts_fst (l : Value) : (setNthParts l).1 = elems l := by
  cases l <;> simp [setNthParts, elems, asList, VList.toList]

theorem appendParts_fst (sw : Sw) (h : sw.appendAsList = true) (l : Value) : (appendParts sw l).1 = elems l := by
  cases l <;> simp [appendParts, elems, asList, VList.toList, h]

theorem joinParts_fst (sw : Sw) (h : sw.joinArgAsList = true) (l : Value) : (joinParts sw l).1 = elems l := by
  cases l <;> simp [joinParts, elems, asList, VList.toList, h]

theorem lengthF_one (l : Value) : lengthF [l] = .ok (natV (elems l).length) := rfl

theorem natOf_natV (n : Nat) : natOf (natV n) = some n := by
  simp [natOf, natV]


/-- `veq` restricted to the keys satisfying `P` is an equivalence (what C09 proves for the values in
    its scope; taken here as an explicit hypothesis on the keys involved) -/
structure KeyEquiv (e : Grass.Value.Sw) (P : Value → Prop) : Prop where
  refl : ∀ x, P x → veq e x x = true
  symm : ∀ x y, P x → P y → veq e x y = true → veq e y x = true
  trans : ∀ x y z, P x → P y → P z → veq e x y = true → veq e y z = true → veq e x z = true

/-- list-style induction for the map component of the mutual value type -/
theorem VPairs.ind {motive : VPairs → Prop} (nil : motive .nil)
    (cons : ∀ k v t, motive t → motive (.cons k v t)) : ∀ m, motive m
  | .nil => nil
  | .cons k v t => cons k v t (VPairs.ind nil cons t)

/-- every key of the map satisfies `P` -/
def keysIn (P : Value → Prop) : VPairs → Prop
  | .nil => True
  | .cons k _ t => P k ∧ keysIn P t

theorem contains_eq_isSome (e : Grass.Value.Sw) (m : VPairs) (q : Value) :
    contains e m q = (get e m q).isSome := by
  induction m using VPairs.ind with
  | nil => rfl
  | cons k v t ih =>
    unfold contains at ih ⊢
    simp only [VPairs.any, Grass.Value.get]
    split <;> simp_all

theorem get_congr {e : Grass.Value.Sw} {P : Value → Prop} (E : KeyEquiv e P) (m : VPairs) (k q : Value)
    (hm : keysIn P m) (hk : P k) (hq : P q) (h : veq e k q = true) : get e m k = get e m q := by
  induction m using VPairs.ind with
  | nil => rfl
  | cons k' v' t ih =>
    obtain ⟨hk', ht⟩ := hm
    simp only [Grass.Value.get]
    by_cases h1 : veq e k' k = true
    · have : veq e k' q = true := E.trans _ _ _ hk' hk hq h1 h
      simp [h1, this]
    · have : ¬ veq e k' q = true := fun h2 =>
        h1 (E.trans _ _ _ hk' hq hk h2 (E.symm _ _ hk hq h))
      simp [h1, this, ih ht]

theorem get_insert_self (e : Grass.Value.Sw) (m : VPairs) (k v : Value) (hr : veq e k k = true) :
    get e (insert e m k v) k = some v := by
  induction m using VPairs.ind with
  | nil => simp [Grass.Value.insert, Grass.Value.get, hr]
  | cons k' v' t ih =>
    simp only [Grass.Value.insert]
    split
    · rename_i h; simp [Grass.Value.get, h]
    · rename_i h; simp [Grass.Value.get, h, ih]

theorem get_insert {e : Grass.Value.Sw} {P : Value → Prop} (E : KeyEquiv e P) (m : VPairs) (k v q : Value)
    (hm : keysIn P m) (hk : P k) (hq : P q) :
    get e (insert e m k v) q = if veq e k q = true then some v else get e m q := by
  induction m using VPairs.ind with
  | nil => simp [Grass.Value.insert, Grass.Value.get]
  | cons k' v' t ih =>
    obtain ⟨hk', ht⟩ := hm
    simp only [Grass.Value.insert]
    by_cases h1 : veq e k' k = true
    · simp only [h1, if_true, Grass.Value.get]
      by_cases h2 : veq e k q = true
      · have : veq e k' q = true := E.trans _ _ _ hk' hk hq h1 h2
        simp [h2, this]
      · have : ¬ veq e k' q = true := fun h3 =>
          h2 (E.trans _ _ _ hk hk' hq (E.symm _ _ hk' hk h1) h3)
        simp [h2, this]
    · simp only [h1, Grass.Value.get]
      by_cases h3 : veq e k' q = true
      · have : ¬ veq e k q = true := fun h2 =>
          h1 (E.trans _ _ _ hk' hq hk h3 (E.symm _ _ hk hq h2))
        simp [Grass.Value.get, h3, this]
      · simp [Grass.Value.get, h3, ih ht]

theorem keysIn_insert (e : Grass.Value.Sw) (P : Value → Prop) (m : VPairs) (k v : Value)
    (hm : keysIn P m) (hk : P k) : keysIn P (insert e m k v) := by
  induction m using VPairs.ind with
  | nil => exact ⟨hk, trivial⟩
  | cons k' v' t ih =>
    obtain ⟨hk', ht⟩ := hm
    simp only [Grass.Value.insert]
    split
    · exact ⟨hk', ht⟩
    · exact ⟨hk', ih ht⟩

theorem get_none_of_not_any (e : Grass.Value.Sw) {P : Value → Prop} (E : KeyEquiv e P) (t : VPairs) (kb q : Value)
    (ht : keysIn P t) (hkb : P kb) (hq : P q) (hbq : veq e kb q = true)
    (hd : t.any (fun k2 _ => veq e kb k2) = false) : get e t q = none := by
  induction t using VPairs.ind with
  | nil => rfl
  | cons k' v' t' ih =>
    obtain ⟨hk', ht'⟩ := ht
    simp only [VPairs.any, Bool.or_eq_false_iff] at hd
    have : ¬ veq e k' q = true := fun h =>
      by
        have := E.trans _ _ _ hkb hq hk' hbq (E.symm _ _ hk' hq h)
        simp [this] at hd
    simp [Grass.Value.get, this, ih ht' hd.2]

/-- `get (merge a b) q`: `b`'s entry if `b` has the key, else `a`'s -/
theorem get_merge {e : Grass.Value.Sw} {P : Value → Prop} (E : KeyEquiv e P) (a b : VPairs) (q : Value)
    (ha : keysIn P a) (hb : keysIn P b) (hq : P q) (hd : distinctKeys e b = true) :
    get e (merge e a b) q = match get e b q with | some v => some v | none => get e a q := by
  induction b using VPairs.ind generalizing a with
  | nil => rfl
  | cons kb vb t ih =>
    obtain ⟨hkb, ht⟩ := hb
    simp only [distinctKeys, Bool.and_eq_true, Bool.not_eq_true'] at hd
    simp only [Grass.Value.merge]
    rw [ih (insert e a kb vb) (keysIn_insert e P a kb vb ha hkb) ht hd.2, get_insert E a kb vb q ha hkb hq]
    simp only [Grass.Value.get]
    by_cases h : veq e kb q = true
    · have := get_none_of_not_any e E t kb q ht hkb hq h hd.1
      simp [h, this]
    · simp [h]

theorem keysIn_merge (e : Grass.Value.Sw) (P : Value → Prop) (a b : VPairs)
    (ha : keysIn P a) (hb : keysIn P b) : keysIn P (merge e a b) := by
  induction b using VPairs.ind generalizing a with
  | nil => exact ha
  | cons kb vb t ih =>
    obtain ⟨hkb, ht⟩ := hb
    exact ih _ (keysIn_insert e P a kb vb ha hkb) ht

theorem get_remove_self (e : Grass.Value.Sw) (h : e.removeEq = true) (m : VPairs) (k : Value) :
    get e (remove e m k) k = none := by
  induction m using VPairs.ind with
  | nil => rfl
  | cons k' v' t ih =>
    simp only [Grass.Value.remove, keeps, h, if_true]
    by_cases h1 : veq e k' k = true
    · simp [h1, ih]
    · simp [h1, Grass.Value.get, ih]

theorem get_remove_other {e : Grass.Value.Sw} {P : Value → Prop} (E : KeyEquiv e P) (h : e.removeEq = true)
    (m : VPairs) (k q : Value) (hm : keysIn P m) (hk : P k) (hq : P q) (hne : veq e k q = false) :
    get e (remove e m k) q = get e m q := by
  induction m using VPairs.ind with
  | nil => rfl
  | cons k' v' t ih =>
    obtain ⟨hk', ht⟩ := hm
    simp only [Grass.Value.remove, keeps, h, if_true]
    by_cases h1 : veq e k' k = true
    · have : ¬ veq e k' q = true := fun h2 => by
        have := E.trans _ _ _ hk hk' hq (E.symm _ _ hk' hk h1) h2
        simp [this] at hne
      simp [h1, Grass.Value.get, this, ih ht]
    · simp [h1, Grass.Value.get, ih ht]


/-! ## deep merge -/

theorem dmVal_none (sw : Sw) (vb : Value) : dmVal sw vb none = vb := by
  cases vb with
  | list es s b => cases es <;> simp [dmVal]
  | arglist es kw s => cases es <;> simp [dmVal]
  | _ => simp [dmVal]

theorem tryMap_map (m : VPairs) : tryMap (.map m) = some m := rfl
theorem tryMap_list_nil (s : Sep) (b : Bool) : tryMap (.list .nil s b) = some .nil := rfl
theorem tryMap_arglist_nil (kw : VPairs) (s : Sep) : tryMap (.arglist .nil kw s) = some .nil := rfl
theorem tryMap_list_cons (a : Value) (t : VList) (s : Sep) (b : Bool) : tryMap (.list (.cons a t) s b) = none := rfl
theorem tryMap_arglist_cons (a : Value) (t : VList) (kw : VPairs) (s : Sep) : tryMap (.arglist (.cons a t) kw s) = none := rfl

/-- what `deep_merge_impl` stores for an incoming value `vb` when the result holds `old` under the key -/
theorem dmVal_eq (sw : Sw) (vb : Value) (old : Option Value) :
    dmVal sw vb old =
      match old.bind tryMap, tryMap vb with
      | some rm, some vm => .map (deepMerge sw rm vm)
      | _, _ => vb := by
  cases old with
  | none => simp [dmVal_none]
  | some o =>
    simp only [Option.bind_some]
    cases hO : tryMap o with
    | none =>
      cases vb with
      | list es s b => cases es <;> simp [dmVal, hO]
      | arglist es kw s => cases es <;> simp [dmVal, hO]
      | _ => simp [dmVal, hO]
    | some rm =>
      cases vb with
      | map vm => simp [dmVal, hO, tryMap_map, deepMerge]
      | list es s b =>
        cases es with
        | nil => simp [dmVal, hO, tryMap_list_nil, deepMerge, dmImpl]
        | cons a t => simp [dmVal, tryMap_list_cons]
      | arglist es kw s =>
        cases es with
        | nil => simp [dmVal, hO, tryMap_arglist_nil, deepMerge, dmImpl]
        | cons a t => simp [dmVal, tryMap_arglist_cons]
      | null => simp [dmVal, tryMap]
      | bool _ => simp [dmVal, tryMap]
      | num _ _ => simp [dmVal, tryMap]
      | str _ _ => simp [dmVal, tryMap]
      | color _ _ _ _ => simp [dmVal, tryMap]

theorem get_dmFold (sw : Sw) {P : Value → Prop} (E : KeyEquiv sw.eq P) (t res : VPairs) (q : Value)
    (ht : keysIn P t) (hres : keysIn P res) (hq : P q) (hd : distinctKeys sw.eq t = true) :
    Grass.Value.get sw.eq (dmFold sw t res) q =
      match Grass.Value.get sw.eq t q with
      | none => Grass.Value.get sw.eq res q
      | some vb => some (dmVal sw vb (Grass.Value.get sw.eq res q)) := by
  induction t using VPairs.ind generalizing res with
  | nil => simp [dmFold, Grass.Value.get]
  | cons kb vb t ih =>
    obtain ⟨hkb, ht'⟩ := ht
    simp only [distinctKeys, Bool.and_eq_true, Bool.not_eq_true'] at hd
    simp only [dmFold]
    rw [ih _ ht' (keysIn_insert sw.eq P res kb _ hres hkb) hd.2, get_insert E res kb _ q hres hkb hq]
    simp only [Grass.Value.get]
    by_cases h : veq sw.eq kb q = true
    · have h1 := get_none_of_not_any sw.eq E t kb q ht' hkb hq h hd.1
      have h2 := get_congr E res kb q hres hkb hq h
      simp [h, h1, h2]
    · simp [h]

theorem deepMerge_cons_cons (sw : Sw) (k v : Value) (t : VPairs) (k1 v1 : Value) (t1 : VPairs) :
    deepMerge sw (.cons k1 v1 t1) (.cons k v t) = dmFold sw (.cons k v t) (.cons k1 v1 t1) := by
  simp [deepMerge, dmImpl, dmFold]

theorem get_deepMerge (sw : Sw) {P : Value → Prop} (E : KeyEquiv sw.eq P) (a b : VPairs) (q : Value)
    (ha : keysIn P a) (hb : keysIn P b) (hq : P q) (hd : distinctKeys sw.eq b = true) :
    Grass.Value.get sw.eq (deepMerge sw a b) q =
      match Grass.Value.get sw.eq b q with
      | none => Grass.Value.get sw.eq a q
      | some vb => some (dmVal sw vb (Grass.Value.get sw.eq a q)) := by
  cases b with
  | nil => simp [deepMerge, dmImpl, Grass.Value.get]
  | cons k v t =>
    cases a with
    | nil =>
      simp only [deepMerge, dmImpl]
      cases Grass.Value.get sw.eq (.cons k v t) q <;> simp [Grass.Value.get, dmVal_none]
    | cons k1 v1 t1 =>
      rw [deepMerge_cons_cons]
      exact get_dmFold sw E _ _ q hb ha hq hd

end Grass.Builtins
