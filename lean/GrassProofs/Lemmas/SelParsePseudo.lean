import GrassProofs.Lemmas.SelParse
import GrassProofs.Lemmas.SelPseudo
/-
  Round trip of the model's printer and parser for a selector pseudo (`:not(…)`, `:is(…)`, …) whose
  arguments are complex selectors over pseudo-free compounds (one level of nesting).
-/
namespace Grass.Selector

/-! ### selector pseudos, one level: `:not(…)`, `:is(…)`, `:where(…)`, `:matches(…)`, `:any(…)` -/

theorem normAll_toComps : ∀ (arg : List RComplex), normAll (arg.map RComplex.toComps) = some arg := by
  intro arg
  induction arg with
  | nil => rfl
  | cons r rs ih => simp [normAll, norm_toComps, ih]

theorem stepsToComps_ne_nil : ∀ (st : RSteps) (acc : Complex), acc ≠ [] → stepsToComps st acc ≠ [] := by
  intro st
  induction st with
  | nil => intro acc h; simpa [stepsToComps] using h
  | cons x rest ih => intro acc _; obtain ⟨r, c⟩ := x; exact ih _ (by simp)

theorem renderComplex_rel (c : Compound) (r : Rel) (acc : Complex) (h : acc ≠ []) :
    renderComplex (.compound c :: relComps r ++ acc) = renderC c ++ relText r ++ renderComplex acc := by
  cases acc with
  | nil => exact absurd rfl h
  | cons a as => cases r <;> simp [relComps, relText, renderComplex, renderComponent]

theorem renderComplex_stepsToComps : ∀ (st : RSteps) (acc : Complex), acc ≠ [] →
    renderComplex (stepsToComps st acc) = renderSt st (renderComplex acc) := by
  intro st
  induction st with
  | nil => intro acc _; simp [stepsToComps, renderSt]
  | cons x rest ih =>
    intro acc h
    obtain ⟨r, c⟩ := x
    simp only [stepsToComps, renderSt]
    rw [ih _ (by simp), renderComplex_rel c r acc h]

/-- the printer of a selector pseudo's argument (normal form) writes what the list printer writes for
    the component view -/
theorem renderArgs_eq_renderList : ∀ (arg : List RComplex), renderArgs arg = renderList (arg.map RComplex.toComps) := by
  intro arg
  induction arg with
  | nil => rfl
  | cons r rs ih =>
    obtain ⟨t, st⟩ := r
    have h1 : renderSt st (renderC t) = renderComplex (RComplex.toComps (t, st)) := by
      unfold RComplex.toComps
      rw [renderComplex_stepsToComps st [.compound t] (by simp)]
      simp [renderComplex, renderComponent]
    cases rs with
    | nil => simp [renderArgs, renderList, h1]
    | cons r2 rs2 =>
      obtain ⟨t2, st2⟩ := r2
      simp only [renderArgs, List.map_cons, renderList] at ih ⊢
      rw [h1, ih]

theorem mem_stepsToComps : ∀ (st : RSteps) (acc : Complex) (c : Compound),
    Component.compound c ∈ stepsToComps st acc → (∃ x ∈ st, x.2 = c) ∨ Component.compound c ∈ acc := by
  intro st
  induction st with
  | nil => intro acc c h; exact Or.inr (by simpa [stepsToComps] using h)
  | cons x rest ih =>
    intro acc c h
    obtain ⟨r, d⟩ := x
    simp only [stepsToComps] at h
    rcases ih _ c h with ⟨y, hy, e⟩ | hm
    · exact Or.inl ⟨y, by simp [hy], e⟩
    · rcases List.mem_cons.1 hm with e | hm2
      · injection e with e; exact Or.inl ⟨(r, d), by simp, e.symm⟩
      · rcases List.mem_append.1 hm2 with h3 | h3
        · cases r <;> simp [relComps] at h3
        · exact Or.inr h3

/-- arguments of a selector pseudo covered by the one-level theorem: non-empty, every compound of
    every complex well-formed in the sense of `wfC` (no nested selector pseudo) -/
def wfArgs (arg : List RComplex) : Prop :=
  arg ≠ [] ∧ ∀ r ∈ arg, wfC r.1 ∧ ∀ x ∈ r.2, wfC x.2

theorem wfL_of_wfArgs (arg : List RComplex) (h : wfArgs arg) : wfL (arg.map RComplex.toComps) := by
  refine ⟨by simpa using h.1, ?_⟩
  intro x hx
  obtain ⟨r, hr, e⟩ := List.mem_map.1 hx
  subst e
  refine ⟨?_, stepsToComps_ne_nil _ _ (by simp)⟩
  intro c hc
  rcases mem_stepsToComps _ _ c hc with ⟨y, hy, e⟩ | hm
  · subst e; exact (h.2 r hr).2 y hy
  · simp only [List.mem_singleton, Component.compound.injEq] at hm
    subst hm; exact (h.2 r hr).1

theorem pname_facts (k : PName) : validName k.text ∧ pnameOf k.text = some k ∧
    ∃ c cs, k.text = c :: cs ∧ c ≠ ':' := by
  cases k <;> refine ⟨⟨⟨_, _, rfl, by decide⟩, by decide⟩, by decide, _, _, rfl, by decide⟩

theorem renderList_head (l : SelList) (hl : wfL l) (hfirst : ∃ c tl, l.head? = some (.compound c :: tl)) :
    ∃ h t, renderList l = h :: t ∧ isWs h = false := by
  obtain ⟨c, tl, e⟩ := hfirst
  cases l with
  | nil => exact absurd rfl hl.1
  | cons x xs =>
    simp only [List.head?_cons, Option.some.injEq] at e
    subst e
    have hc : wfC c := (hl.2 (.compound c :: tl) (by simp)).1 c (by simp)
    obtain ⟨h, t, e1, h1, _⟩ := renderC_head c hc
    have : ∃ t', renderComplex (.compound c :: tl) = h :: t' := by
      cases tl with
      | nil => exact ⟨t, by simp [renderComplex, renderComponent, e1]⟩
      | cons d ds => exact ⟨t ++ ' ' :: renderComplex (d :: ds), by simp [renderComplex, renderComponent, e1]⟩
    obtain ⟨t', e2⟩ := this
    cases xs with
    | nil => exact ⟨h, t', by simp [renderList, e2], h1⟩
    | cons y ys => exact ⟨h, t' ++ ',' :: ' ' :: renderList (y :: ys), by simp [renderList, e2], h1⟩

theorem toComps_head (r : RComplex) : ∃ c tl, r.toComps = .compound c :: tl := by
  obtain ⟨t, st⟩ := r
  unfold RComplex.toComps
  suffices h : ∀ (st : RSteps) (acc : Complex), (∃ c tl, acc = .compound c :: tl) →
      ∃ c tl, stepsToComps st acc = .compound c :: tl from h st _ ⟨t, [], rfl⟩
  intro st
  induction st with
  | nil => intro acc h; simpa [stepsToComps] using h
  | cons x rest ih => intro acc _; obtain ⟨r, c⟩ := x; exact ih _ ⟨c, _, rfl⟩

/-- **printer / parser round trip of a selector pseudo** whose arguments are complex selectors
    (any combinators) over pseudo-free compounds: the parser reads `:name(args)` back exactly,
    through `pList` and the normalisation `normAll`, with any fuel `≥ needL + 1`. -/
theorem pSimple_sel_app (k : PName) (arg : List RComplex) (rest : List Char) (h : wfArgs arg) (f : Nat)
    (hf : needL (arg.map RComplex.toComps) ≤ f) :
    pSimple (f + 1) (renderS (.sel k arg) ++ rest) = some (.sel k arg, rest) := by
  obtain ⟨hv, hpn, c, cs, ek, hc⟩ := pname_facts k
  have hwf := wfL_of_wfArgs arg h
  have hfirst : ∃ c tl, (arg.map RComplex.toComps).head? = some (.compound c :: tl) := by
    cases arg with
    | nil => exact absurd rfl h.1
    | cons r rs => obtain ⟨c, tl, e⟩ := toComps_head r; exact ⟨c, tl, by simp [e]⟩
  obtain ⟨hh, ht, eh, hws⟩ := renderList_head _ hwf hfirst
  have hp := pIdent_app k.text ('(' :: (renderList (arg.map RComplex.toComps) ++ ')' :: rest)) hv
    (by intro c cs e; injection e with e1 _; subst e1; decide)
  have hl := pList_app (arg.map RComplex.toComps) (')' :: rest) hwf (Or.inr ⟨rest, rfl⟩) f hf
  have hsk : skipWs (renderList (arg.map RComplex.toComps) ++ ')' :: rest) =
      renderList (arg.map RComplex.toComps) ++ ')' :: rest := by
    rw [eh]; exact skipWs_nows _ hws
  simp only [renderS, renderArgs_eq_renderList, List.cons_append, List.append_assoc, List.nil_append]
  rw [ek] at hp ⊢
  simp only [List.cons_append] at hp ⊢
  rw [pSimple_colon _ _ _ hc, hp]
  split
  · rename_i n r' heq
    injection heq with h1; injection h1 with h2 h3; injection h3 with _ h4
    subst h2 h4
    rw [← ek, hpn]
    dsimp only
    rw [hsk, hl]
    dsimp only
    rw [skipWs_nows _ (by decide), normAll_toComps]
    rfl
  · rename_i hneg heq
    injection heq with h1; injection h1 with _ h3
    exact (hneg _ h3.symm).elim
  · rename_i heq; cases heq

end Grass.Selector
