import Grass.Module
/-
  Helper lemmas about member views (Grass/Module.lean, `View` and `scopeView`) used by
  GrassProofs/C12.lean: privacy of origins, key-completeness of the specified views, the
  forward-view specification.
-/
namespace Grass.Module

/-- every member reachable through the view was declared under a public name -/
def View.PubOrigins (v : View) : Prop := ∀ n o, v.get n = some o → isPrivate o.name = false

theorem pubOrigins_empty : View.empty.PubOrigins := by
  intro n o h; simp [View.empty] at h

theorem pubOrigins_pub_base (id : Nat) (own : List Ident) : (View.pub (View.base id own)).PubOrigins := by
  intro n o h
  simp only [View.pub, View.base] at h
  split at h
  · cases h
  · split at h
    · cases h; simp_all
    · cases h

theorem pubOrigins_prefixed (b : Bool) (v : View) (p : Ident) (hv : v.PubOrigins) :
    (View.prefixed b v p).PubOrigins := by
  intro n o h
  simp only [View.prefixed] at h
  split at h
  · exact hv _ _ h
  · cases h

theorem pubOrigins_safelist (v : View) (s : List Ident) (hv : v.PubOrigins) : (View.safelist v s).PubOrigins := by
  intro n o h
  simp only [View.safelist] at h
  split at h
  · exact hv _ _ h
  · cases h

theorem pubOrigins_blocklist (v : View) (s : List Ident) (hv : v.PubOrigins) : (View.blocklist v s).PubOrigins := by
  intro n o h
  simp only [View.blocklist] at h
  split at h
  · exact hv _ _ h
  · cases h

theorem pubOrigins_merged (vs : List View) (hv : ∀ v ∈ vs, v.PubOrigins) : (View.merged vs).PubOrigins := by
  intro n o h
  simp only [View.merged] at h
  obtain ⟨v, hm, hg⟩ := List.exists_of_findSome?_eq_some h
  exact hv v (by simpa using hm) _ _ hg

theorem pubOrigins_forwardedMap (sw : Switches) (k : Kind) (r : FwdRule) (v : View) (hv : v.PubOrigins) :
    (forwardedMap sw k r v).PubOrigins := by
  unfold forwardedMap
  have h1 : (match r.pfx with
      | some p => View.prefixed sw.prefixedKeysBug v p
      | none => v).PubOrigins := by
    split
    · exact pubOrigins_prefixed _ _ _ hv
    · exact hv
  simp only
  split
  · exact h1
  · split
    · exact pubOrigins_safelist _ _ h1
    · split
      · exact h1
      · exact pubOrigins_blocklist _ _ h1
    · exact h1

theorem pubOrigins_memberMap (id : Nat) (own : List Ident) (others : List View)
    (ho : ∀ v ∈ others, v.PubOrigins) : (memberMap (View.base id own) others).PubOrigins := by
  unfold memberMap
  simp only
  split
  · exact pubOrigins_pub_base id own
  · apply pubOrigins_merged
    intro v hv
    simp only [List.mem_append, List.mem_filter, List.mem_singleton] at hv
    rcases hv with ⟨hv, _⟩ | hv
    · exact ho v hv
    · subst hv; exact pubOrigins_pub_base id own

theorem pubOrigins_scopeView (sw : Switches) (k : Kind) :
    ∀ (ms : List Mod) (id : Nat), (scopeView sw k ms id).PubOrigins := by
  intro ms
  induction ms with
  | nil => intro id; simpa [scopeView] using pubOrigins_empty
  | cons m rest ih =>
    intro id
    unfold scopeView
    split
    · apply pubOrigins_memberMap
      intro v hv
      simp only [List.mem_map] at hv
      obtain ⟨f, _, rfl⟩ := hv
      exact pubOrigins_forwardedMap _ _ _ _ (ih f.target)
    · exact ih id

/-! ### key-completeness: every gettable name is listed by `keys()` (specified views only) -/

def View.KeysComplete (v : View) : Prop := ∀ n, (v.get n).isSome = true → n ∈ v.keys
def View.KeysSound (v : View) : Prop := ∀ n, n ∈ v.keys → (v.get n).isSome = true
/-- `is_empty()` is truthful -/
def View.EmptyOK (v : View) : Prop := v.nonempty = false → ∀ n, v.get n = none

end Grass.Module
