import Grass.Module
/-
  Helper lemmas about member views (Grass/Module.lean, `View` and `scopeView`) used by
  GrassProofs/C12.lean: privacy of origins, key-completeness of the specified views, the
  forward-view specification.
-/
namespace Grass.Module

/-- every member reachable through the view was declared under a public name -/
def View.PubOrigins (v : View) : Prop := ∀ n o, v.get n = some o → isPrivate o.name = false

theorem pubOrigins_empty : View.empty.PubOrigins := by
  intro n o h; simp [View.empty] at h

theorem pubOrigins_pub_base (id : Nat) (own : List Ident) : (View.pub (View.base id own)).PubOrigins := by
  intro n o h
  simp only [View.pub, View.base] at h
  split at h
  · cases h
  · split at h
    · cases h; simp_all
    · cases h

theorem pubOrigins_prefixed (b : Bool) (v : View) (p : Ident) (hv : v.PubOrigins) :
    (View.prefixed b v p).PubOrigins := by
  intro n o h
  simp only [View.prefixed] at h
  split at h
  · exact hv _ _ h
  · cases h

theorem pubOrigins_safelist (v : View) (s : List Ident) (hv : v.PubOrigins) : (View.safelist v s).PubOrigins := by
  intro n o h
  simp only [View.safelist] at h
  split at h
  · exact hv _ _ h
  · cases h

theorem pubOrigins_blocklist (v : View) (s : List Ident) (hv : v.PubOrigins) : (View.blocklist v s).PubOrigins := by
  intro n o h
  simp only [View.blocklist] at h
  split at h
  · exact hv _ _ h
  · cases h

theorem pubOrigins_merged (vs : List View) (hv : ∀ v ∈ vs, v.PubOrigins) : (View.merged vs).PubOrigins := by
  intro n o h
  simp only [View.merged] at h
  obtain ⟨v, hm, hg⟩ := List.exists_of_findSome?_eq_some h
  exact hv v (by simpa using hm) _ _ hg

theorem pubOrigins_limitBy (vis : Vis) (k : Kind) (v : View) (hv : v.PubOrigins) : (limitBy vis k v).PubOrigins := by
  unfold limitBy
  split
  · exact pubOrigins_safelist _ _ hv
  · split
    · exact hv
    · exact pubOrigins_blocklist _ _ hv
  · exact hv

theorem pubOrigins_forwardedMap (sw : Switches) (k : Kind) (r : FwdRule) (v : View) (hv : v.PubOrigins) :
    (forwardedMap sw k r v).PubOrigins := by
  unfold forwardedMap
  have h1 : (prefixBy sw.prefixedKeysBug r.pfx v).PubOrigins := by
    unfold prefixBy
    split
    · exact pubOrigins_prefixed _ _ _ hv
    · exact hv
  simp only
  split
  · exact h1
  · exact pubOrigins_limitBy _ _ _ h1

theorem pubOrigins_memberMap (id : Nat) (own : List Ident) (others : List View)
    (ho : ∀ v ∈ others, v.PubOrigins) : (memberMap (View.base id own) others).PubOrigins := by
  unfold memberMap
  simp only
  split
  · exact pubOrigins_pub_base id own
  · apply pubOrigins_merged
    intro v hv
    simp only [List.mem_append, List.mem_filter, List.mem_singleton] at hv
    rcases hv with ⟨hv, _⟩ | hv
    · exact ho v hv
    · subst hv; exact pubOrigins_pub_base id own

theorem pubOrigins_scopeView (sw : Switches) (k : Kind) :
    ∀ (ms : List Mod) (id : Nat), (scopeView sw k ms id).PubOrigins := by
  intro ms
  induction ms with
  | nil => intro id; simpa [scopeView] using pubOrigins_empty
  | cons m rest ih =>
    intro id
    unfold scopeView
    split
    · apply pubOrigins_memberMap
      intro v hv
      simp only [List.mem_map] at hv
      obtain ⟨f, _, rfl⟩ := hv
      exact pubOrigins_forwardedMap _ _ _ _ (ih f.target)
    · exact ih id

/-! ### key-completeness: every gettable name is listed by `keys()` (specified views only) -/

def View.KeysComplete (v : View) : Prop := ∀ n, (v.get n).isSome = true → n ∈ v.keys
def View.KeysSound (v : View) : Prop := ∀ n, n ∈ v.keys → (v.get n).isSome = true
/-- `is_empty()` is truthful -/
def View.EmptyOK (v : View) : Prop := v.nonempty = false → ∀ n, v.get n = none


structure View.Good (v : View) : Prop where
  complete : v.KeysComplete
  emptyOK : v.EmptyOK

theorem isPrefixOf_append_drop (p n : Ident) (h : p.isPrefixOf n = true) : p ++ n.drop p.length = n := by
  rw [List.isPrefixOf_iff_prefix] at h
  exact List.prefix_iff_eq_append.mp h

theorem good_empty : View.empty.Good := ⟨by intro n h; simp [View.empty] at h, by intro _ n; rfl⟩

theorem good_base (id : Nat) (own : List Ident) : (View.base id own).Good := by
  refine ⟨?_, ?_⟩
  · intro n h
    simp only [View.base] at h ⊢
    split at h
    · simp_all
    · simp at h
  · intro h n
    simp only [View.base] at h ⊢
    have : own = [] := by simpa using h
    subst this; simp

theorem good_pub (v : View) (hv : v.Good) : (View.pub v).Good := by
  refine ⟨?_, ?_⟩
  · intro n h
    simp only [View.pub] at h ⊢
    split at h
    · simp at h
    · rename_i hp
      simp only [List.mem_filter]
      exact ⟨hv.complete n h, by simpa using hp⟩
  · intro h n
    simp only [View.pub] at h ⊢
    split
    · rfl
    · exact hv.emptyOK h n

theorem good_prefixed (v : View) (p : Ident) (hv : v.Good) : (View.prefixed false v p).Good := by
  refine ⟨?_, ?_⟩
  · intro n h
    simp only [View.prefixed] at h ⊢
    split at h
    · rename_i hp
      simp only [Bool.false_eq_true, if_false, List.mem_map]
      exact ⟨n.drop p.length, hv.complete _ h, isPrefixOf_append_drop p n hp⟩
    · simp at h
  · intro h n
    simp only [View.prefixed] at h ⊢
    split
    · exact hv.emptyOK h _
    · rfl

theorem good_safelist (v : View) (s : List Ident) : (View.safelist v s).Good := by
  refine ⟨?_, ?_⟩
  · intro n h
    simp only [View.safelist] at h ⊢
    split at h
    · rename_i hc; simpa using hc
    · simp at h
  · intro h n
    simp only [View.safelist] at h ⊢
    have : List.filter (fun k => (v.get k).isSome) s = [] := by simpa using h
    rw [this]; simp

theorem good_blocklist (v : View) (s : List Ident) : (View.blocklist v s).Good := by
  refine ⟨?_, ?_⟩
  · intro n h
    simp only [View.blocklist] at h ⊢
    split at h
    · rename_i hc; simpa using hc
    · simp at h
  · intro h n
    simp only [View.blocklist] at h ⊢
    have : List.filter (fun k => !s.contains k) v.keys = [] := by simpa using h
    rw [this]; simp

theorem good_merged (vs : List View) (hv : ∀ v ∈ vs, v.Good) : (View.merged vs).Good := by
  have hc : (View.merged vs).KeysComplete := by
    intro n h
    simp only [View.merged] at h ⊢
    rw [List.mem_eraseDups, List.mem_flatMap]
    cases hf : List.findSome? (fun v => v.get n) vs.reverse with
    | none => simp [hf] at h
    | some o =>
      obtain ⟨v, hm, hg⟩ := List.exists_of_findSome?_eq_some hf
      exact ⟨v, by simpa using hm, (hv v (by simpa using hm)).complete n (by simp [hg])⟩
  refine ⟨hc, ?_⟩
  intro h n
  cases hg : (View.merged vs).get n with
  | none => rfl
  | some o =>
    have := hc n (by simp [hg])
    simp only [View.merged] at h this
    have hnil : (List.flatMap (fun x => x.keys) vs).eraseDups = [] := by simpa using h
    rw [hnil] at this
    simp at this

theorem good_limitBy (vis : Vis) (k : Kind) (v : View) (hv : v.Good) : (limitBy vis k v).Good := by
  unfold limitBy
  split
  · exact good_safelist _ _
  · split
    · exact hv
    · exact good_blocklist _ _
  · exact hv

theorem good_forwardedMap (sw : Switches) (hb : sw.prefixedKeysBug = false) (k : Kind) (r : FwdRule)
    (v : View) (hv : v.Good) : (forwardedMap sw k r v).Good := by
  unfold forwardedMap
  have h1 : (prefixBy sw.prefixedKeysBug r.pfx v).Good := by
    unfold prefixBy
    split
    · rw [hb]; exact good_prefixed _ _ hv
    · exact hv
  simp only
  split
  · exact h1
  · exact good_limitBy _ _ _ h1

theorem good_memberMap (id : Nat) (own : List Ident) (others : List View)
    (ho : ∀ v ∈ others, v.Good) : (memberMap (View.base id own) others).Good := by
  unfold memberMap
  simp only
  split
  · exact good_pub _ (good_base id own)
  · apply good_merged
    intro v hv
    simp only [List.mem_append, List.mem_filter, List.mem_singleton] at hv
    rcases hv with ⟨hv, _⟩ | hv
    · exact ho v hv
    · subst hv; exact good_pub _ (good_base id own)

theorem good_scopeView (sw : Switches) (hb : sw.prefixedKeysBug = false) (k : Kind) :
    ∀ (ms : List Mod) (id : Nat), (scopeView sw k ms id).Good := by
  intro ms
  induction ms with
  | nil => intro id; simpa [scopeView] using good_empty
  | cons m rest ih =>
    intro id
    unfold scopeView
    split
    · apply good_memberMap
      intro v hv
      simp only [List.mem_map] at hv
      obtain ⟨f, _, rfl⟩ := hv
      exact good_forwardedMap sw hb _ _ _ (ih f.target)
    · exact ih id

/-! ### the forward view equals `prefix ∘ filter(show/hide)` of the upstream view -/

theorem safelist_get (v1 : View) (s : List Ident) (n : Ident) :
    (View.safelist v1 s).get n = if s.contains n then v1.get n else none := by
  simp only [View.safelist]
  by_cases hm : n ∈ s
  · cases hg : v1.get n with
    | none => simp
    | some o => simp [hm, hg]
  · simp [hm]

theorem blocklist_get (v1 : View) (h1g : v1.Good) (b : List Ident) (n : Ident) :
    (View.blocklist v1 b).get n = if !b.contains n then v1.get n else none := by
  simp only [View.blocklist]
  by_cases hm : n ∈ b
  · simp [hm]
  · cases hg : v1.get n with
    | none => simp
    | some o =>
      have hk := h1g.complete n (by simp [hg])
      simp [hm, hk]

theorem limitBy_get (vis : Vis) (k : Kind) (v1 : View) (h1g : v1.Good) (n : Ident) :
    (limitBy vis k v1).get n = if visAllows vis k n then v1.get n else none := by
  unfold limitBy visAllows
  cases hs : vis.safe k with
  | some s => simp only [safelist_get]
  | none =>
    cases hb : vis.block k with
    | none => simp
    | some b =>
      simp only
      split
      · rename_i he
        have : b = [] := by simpa using he
        subst this; simp
      · exact blocklist_get v1 h1g b n

theorem forwardedMap_get_spec (sw : Switches) (hl : sw.ignoreLists = false) (hb : sw.prefixedKeysBug = false)
    (k : Kind) (r : FwdRule) (v : View) (hv : v.Good) (n : Ident) :
    (forwardedMap sw k r v).get n = fwdSpecGet r k v.get n := by
  have h1g : (prefixBy sw.prefixedKeysBug r.pfx v).Good := by
    unfold prefixBy
    split
    · rw [hb]; exact good_prefixed _ _ hv
    · exact hv
  have h1 : (prefixBy sw.prefixedKeysBug r.pfx v).get n = stripPfx r.pfx v.get n := by
    unfold prefixBy stripPfx
    split <;> simp [View.prefixed]
  unfold forwardedMap fwdSpecGet FwdRule.allows
  simp only [hl, Bool.false_eq_true, if_false]
  rw [limitBy_get r.vis k _ h1g n, h1]

/-! ### the whole scope of a module, without views -/

theorem findSome?_filter_none {α β : Type} (f : α → Option β) (p : α → Bool) :
    ∀ (l : List α), (∀ x ∈ l, p x = false → f x = none) → (l.filter p).findSome? f = l.findSome? f := by
  intro l
  induction l with
  | nil => intro _; rfl
  | cons a l ih =>
    intro h
    have ih' := ih (fun x hx => h x (by simp [hx]))
    by_cases hp : p a = true
    · simp [hp, List.findSome?_cons, ih']
    · simp only [Bool.not_eq_true] at hp
      have := h a (by simp) hp
      simp [hp, ih', this]

theorem memberMap_get (loc : View) (others : List View) (ho : ∀ v ∈ others, v.Good) (n : Ident) :
    (memberMap loc others).get n = ((View.pub loc).get n).or (others.reverse.findSome? (fun v => v.get n)) := by
  unfold memberMap
  simp only
  split
  · rename_i he
    have : others = [] := by simpa using he
    subst this; simp
  · simp only [View.merged, List.reverse_append, List.reverse_cons, List.reverse_nil, List.nil_append,
      List.singleton_append, List.findSome?_cons]
    rw [← List.filter_reverse, findSome?_filter_none]
    · cases (View.pub loc).get n <;> simp
    · intro v hv hne
      exact (ho v (by simpa using hv)).emptyOK hne n

theorem pub_base_get (id : Nat) (own : List Ident) (n : Ident) :
    (View.pub (View.base id own)).get n = if !isPrivate n && own.contains n then some ⟨id, n⟩ else none := by
  simp only [View.pub, View.base]
  cases isPrivate n <;> simp

theorem scopeView_get_spec (sw : Switches) (hl : sw.ignoreLists = false) (hb : sw.prefixedKeysBug = false)
    (k : Kind) : ∀ (ms : List Mod) (id : Nat) (n : Ident), (scopeView sw k ms id).get n = specGet k ms id n := by
  intro ms
  induction ms with
  | nil => intro id n; simp [scopeView, specGet, View.empty]
  | cons m rest ih =>
    intro id n
    unfold scopeView specGet
    split
    · rw [memberMap_get, pub_base_get]
      · congr 1
        rw [← List.map_reverse, List.findSome?_map]
        congr 1
        funext f
        simp only [Function.comp]
        rw [forwardedMap_get_spec sw hl hb k f.rule _ (good_scopeView sw hb k rest f.target) n]
        congr 1
        funext x
        exact ih f.target x
      · intro v hv
        simp only [List.mem_map] at hv
        obtain ⟨f, _, rfl⟩ := hv
        exact good_forwardedMap sw hb _ _ _ (good_scopeView sw hb k rest f.target)
    · exact ih id n


/-! ### every origin a view hands out satisfies a predicate that holds of all declared members -/

def View.AllOrigins (P : Origin → Prop) (v : View) : Prop := ∀ n o, v.get n = some o → P o

theorem allOrigins_base (P : Origin → Prop) (id : Nat) (own : List Ident) (h : ∀ n ∈ own, P ⟨id, n⟩) :
    (View.base id own).AllOrigins P := by
  intro n o hg
  simp only [View.base] at hg
  split at hg
  · rename_i hc; cases hg; exact h n (by simpa using hc)
  · cases hg

theorem allOrigins_pub (P : Origin → Prop) (v : View) (hv : v.AllOrigins P) : (View.pub v).AllOrigins P := by
  intro n o hg
  simp only [View.pub] at hg
  split at hg
  · cases hg
  · exact hv _ _ hg

theorem allOrigins_limitBy (P : Origin → Prop) (vis : Vis) (k : Kind) (v : View) (hv : v.AllOrigins P) :
    (limitBy vis k v).AllOrigins P := by
  intro n o hg
  unfold limitBy at hg
  split at hg
  · simp only [View.safelist] at hg; split at hg
    · exact hv _ _ hg
    · cases hg
  · split at hg
    · exact hv _ _ hg
    · simp only [View.blocklist] at hg; split at hg
      · exact hv _ _ hg
      · cases hg
  · exact hv _ _ hg

theorem allOrigins_forwardedMap (P : Origin → Prop) (sw : Switches) (k : Kind) (r : FwdRule) (v : View)
    (hv : v.AllOrigins P) : (forwardedMap sw k r v).AllOrigins P := by
  have h1 : (prefixBy sw.prefixedKeysBug r.pfx v).AllOrigins P := by
    intro n o hg
    unfold prefixBy at hg
    split at hg
    · simp only [View.prefixed] at hg; split at hg
      · exact hv _ _ hg
      · cases hg
    · exact hv _ _ hg
  unfold forwardedMap
  simp only
  split
  · exact h1
  · exact allOrigins_limitBy P _ _ _ h1

theorem allOrigins_memberMap (P : Origin → Prop) (loc : View) (others : List View) (hl : loc.AllOrigins P)
    (ho : ∀ v ∈ others, v.AllOrigins P) : (memberMap loc others).AllOrigins P := by
  unfold memberMap
  simp only
  split
  · exact allOrigins_pub P _ hl
  · intro n o hg
    simp only [View.merged] at hg
    obtain ⟨v, hm, hgv⟩ := List.exists_of_findSome?_eq_some hg
    simp only [List.mem_reverse, List.mem_append, List.mem_filter, List.mem_singleton] at hm
    rcases hm with ⟨hm, _⟩ | hm
    · exact ho v hm _ _ hgv
    · subst hm; exact allOrigins_pub P _ hl _ _ hgv

theorem modAt_lt : ∀ (ms : List Mod) (i : Nat) (m : Mod), modAt ms i = some m → i < ms.length := by
  intro ms
  induction ms with
  | nil => intro i m h; simp [modAt] at h
  | cons a rest ih =>
    intro i m h
    unfold modAt at h
    split at h
    · simp_all
    · have := ih i m h; simp; omega

theorem allOrigins_scopeView (P : Origin → Prop) (sw : Switches) (k : Kind) :
    ∀ (ms : List Mod) (id : Nat), (∀ i m, modAt ms i = some m → ∀ n ∈ m.names k, P ⟨i, n⟩) →
      (scopeView sw k ms id).AllOrigins P := by
  intro ms
  induction ms with
  | nil => intro id _ n o h; simp [scopeView, View.empty] at h
  | cons m rest ih =>
    intro id hP
    have hrest : ∀ i m', modAt rest i = some m' → ∀ n ∈ m'.names k, P ⟨i, n⟩ := by
      intro i m' hm
      have hlt := modAt_lt rest i m' hm
      apply hP i m'
      unfold modAt
      rw [if_neg (by omega)]
      exact hm
    unfold scopeView
    split
    · rename_i hid
      apply allOrigins_memberMap
      · apply allOrigins_base
        exact hP id m (by unfold modAt; rw [if_pos hid])
      · intro v hv
        simp only [List.mem_map] at hv
        obtain ⟨f, _, rfl⟩ := hv
        exact allOrigins_forwardedMap P _ _ _ _ (ih f.target hrest)
    · exact ih id hrest

theorem readVar_eq_modAt : ∀ (ms : List Mod) (i : Nat) (n : Ident),
    readVar ms i n = (modAt ms i).bind (fun m => m.vars.lookup n) := by
  intro ms
  induction ms with
  | nil => intros; rfl
  | cons a rest ih =>
    intro i n
    unfold readVar modAt
    split
    · rfl
    · exact ih i n

theorem lookup_isSome_of_mem (l : List (Ident × Val)) (n : Ident) (h : n ∈ l.map (·.1)) : (l.lookup n).isSome = true := by
  induction l with
  | nil => simp at h
  | cons e l ih =>
    obtain ⟨k, v⟩ := e
    simp only [List.map_cons, List.mem_cons] at h
    simp only [List.lookup]
    by_cases hk : n = k
    · subst hk; simp
    · have : (n == k) = false := by simpa using hk
      rw [this]
      exact ih (by rcases h with h | h; exact absurd h hk; exact h)

/-- every variable origin handed out by a module's scope names a variable that exists -/
theorem scopeView_var_exists (sw : Switches) (ms : List Mod) (id : Nat) (n : Ident) (o : Origin)
    (h : (scopeView sw .var ms id).get n = some o) : (readVar ms o.owner o.name).isSome = true := by
  refine allOrigins_scopeView (fun o => (readVar ms o.owner o.name).isSome = true) sw .var ms id ?_ n o h
  intro i m hm x hx
  simp only [readVar_eq_modAt, hm, Option.bind_some]
  exact lookup_isSome_of_mem _ _ (by simpa [Mod.names] using hx)

/-! ### assignment keeps every view and updates the one shared variable -/

theorem setAssoc_keys (l : List (Ident × Val)) (n : Ident) (v : Val) (h : (l.lookup n).isSome = true) :
    (setAssoc l n v).map (·.1) = l.map (·.1) := by
  have hany : l.any (fun e => e.1 == n) = true := by
    induction l with
    | nil => simp at h
    | cons e l ih =>
      obtain ⟨k, x⟩ := e
      simp only [List.lookup] at h
      by_cases hk : n = k
      · subst hk; simp
      · have hb : (n == k) = false := by simpa using hk
        rw [hb] at h
        simp [ih h]
  unfold setAssoc
  rw [if_pos hany]
  clear hany h
  induction l with
  | nil => rfl
  | cons e l ih =>
    simp only [List.map_cons, ih]
    split <;> simp_all

theorem lookup_setAssoc (l : List (Ident × Val)) (n : Ident) (v : Val) (h : (l.lookup n).isSome = true) :
    (setAssoc l n v).lookup n = some v := by
  have hany : l.any (fun e => e.1 == n) = true := by
    induction l with
    | nil => simp at h
    | cons e l ih =>
      obtain ⟨k, x⟩ := e
      simp only [List.lookup] at h
      by_cases hk : n = k
      · subst hk; simp
      · have hb : (n == k) = false := by simpa using hk
        rw [hb] at h
        simp [ih h]
  unfold setAssoc
  rw [if_pos hany]
  clear hany
  induction l with
  | nil => simp at h
  | cons e l ih =>
    obtain ⟨k, x⟩ := e
    simp only [List.lookup] at h
    by_cases hk : n = k
    · subst hk; simp
    · have hb : (n == k) = false := by simpa using hk
      have hb2 : (k == n) = false := by simpa using Ne.symm hk
      rw [hb] at h
      simp only [List.map_cons, hb2, Bool.false_eq_true, if_false, List.lookup, hb]
      exact ih h

theorem readVar_setVar : ∀ (ms : List Mod) (id : Nat) (n : Ident) (v : Val),
    (readVar ms id n).isSome = true → readVar (setVar ms id n v) id n = some v := by
  intro ms
  induction ms with
  | nil => intro id n v h; simp [readVar] at h
  | cons m rest ih =>
    intro id n v h
    unfold readVar at h
    unfold setVar
    split
    · rename_i hid
      rw [if_pos hid] at h
      unfold readVar
      rw [if_pos hid]
      exact lookup_setAssoc _ _ _ h
    · rename_i hid
      rw [if_neg hid] at h
      unfold readVar
      rw [setVar_length', if_neg hid]
      exact ih id n v h
where
  setVar_length' {rest : List Mod} {id : Nat} {n : Ident} {v : Val} : (setVar rest id n v).length = rest.length := by
    induction rest with
    | nil => rfl
    | cons a r ih => unfold setVar; split <;> simp [ih]

theorem scopeView_setVar (sw : Switches) (k : Kind) : ∀ (ms : List Mod) (id : Nat) (n : Ident) (v : Val) (i : Nat),
    (readVar ms id n).isSome = true → scopeView sw k (setVar ms id n v) i = scopeView sw k ms i := by
  intro ms
  induction ms with
  | nil => intros; rfl
  | cons m rest ih =>
    intro id n v i h
    unfold readVar at h
    unfold setVar
    split
    · rename_i hid
      rw [if_pos hid] at h
      unfold scopeView
      have hn : ({ m with vars := setAssoc m.vars n v } : Mod).names k = m.names k := by
        cases k <;> simp [Mod.names, setAssoc_keys _ _ _ h]
      simp only [hn]
    · rename_i hid
      rw [if_neg hid] at h
      unfold scopeView
      have hl : (setVar rest id n v).length = rest.length := readVar_setVar.setVar_length'
      rw [hl]
      split
      · congr 1
        apply List.map_congr_left
        intro f _
        rw [ih id n v f.target h]
      · exact ih id n v i h


/-! ### key-soundness: `keys()` lists only names that `get` serves (holds for every switch setting) -/

theorem sound_empty : View.empty.KeysSound := by intro n h; simp [View.empty] at h

theorem sound_base (id : Nat) (own : List Ident) : (View.base id own).KeysSound := by
  intro n h
  simp only [View.base] at h ⊢
  simp [h]

theorem sound_pub (v : View) (hv : v.KeysSound) : (View.pub v).KeysSound := by
  intro n h
  simp only [View.pub, List.mem_filter] at h ⊢
  have hp : isPrivate n = false := by simpa using h.2
  simp [hp, hv n h.1]

theorem sound_prefixed (b : Bool) (v : View) (p : Ident) (hv : v.KeysSound) : (View.prefixed b v p).KeysSound := by
  intro n h
  simp only [View.prefixed, List.mem_map] at h ⊢
  obtain ⟨k, hk, rfl⟩ := h
  have hk' : k ∈ v.keys := by
    cases b
    · simpa using hk
    · simp only [if_true, List.mem_filter] at hk; exact hk.1
  have hpre : p.isPrefixOf (p ++ k) = true := by simp [List.isPrefixOf_iff_prefix]
  simp [hpre, hv k hk']

theorem sound_safelist (v : View) (s : List Ident) : (View.safelist v s).KeysSound := by
  intro n h
  simp only [View.safelist] at h ⊢
  have hc : (List.filter (fun k => (v.get k).isSome) s).contains n = true := by simpa using h
  simp only [hc, if_true]
  simp only [List.mem_filter] at h
  exact h.2

theorem sound_blocklist (v : View) (s : List Ident) (hv : v.KeysSound) : (View.blocklist v s).KeysSound := by
  intro n h
  simp only [View.blocklist] at h ⊢
  have hc : (List.filter (fun k => !s.contains k) v.keys).contains n = true := by simpa using h
  simp only [hc, if_true]
  simp only [List.mem_filter] at h
  exact hv n h.1

theorem sound_merged (vs : List View) (hv : ∀ v ∈ vs, v.KeysSound) : (View.merged vs).KeysSound := by
  intro n h
  simp only [View.merged] at h ⊢
  rw [List.mem_eraseDups, List.mem_flatMap] at h
  obtain ⟨v, hm, hk⟩ := h
  rw [List.findSome?_isSome_iff]
  exact ⟨v, by simpa using hm, hv v hm n hk⟩

theorem sound_limitBy (vis : Vis) (k : Kind) (v : View) (hv : v.KeysSound) : (limitBy vis k v).KeysSound := by
  unfold limitBy
  split
  · exact sound_safelist _ _
  · split
    · exact hv
    · exact sound_blocklist _ _ hv
  · exact hv

theorem sound_forwardedMap (sw : Switches) (k : Kind) (r : FwdRule) (v : View) (hv : v.KeysSound) :
    (forwardedMap sw k r v).KeysSound := by
  have h1 : (prefixBy sw.prefixedKeysBug r.pfx v).KeysSound := by
    unfold prefixBy
    split
    · exact sound_prefixed _ _ _ hv
    · exact hv
  unfold forwardedMap
  simp only
  split
  · exact h1
  · exact sound_limitBy _ _ _ h1

theorem sound_memberMap (id : Nat) (own : List Ident) (others : List View) (ho : ∀ v ∈ others, v.KeysSound) :
    (memberMap (View.base id own) others).KeysSound := by
  unfold memberMap
  simp only
  split
  · exact sound_pub _ (sound_base id own)
  · apply sound_merged
    intro v hv
    simp only [List.mem_append, List.mem_filter, List.mem_singleton] at hv
    rcases hv with ⟨hv, _⟩ | hv
    · exact ho v hv
    · subst hv; exact sound_pub _ (sound_base id own)

theorem sound_scopeView (sw : Switches) (k : Kind) : ∀ (ms : List Mod) (id : Nat), (scopeView sw k ms id).KeysSound := by
  intro ms
  induction ms with
  | nil => intro id; simpa [scopeView] using sound_empty
  | cons m rest ih =>
    intro id
    unfold scopeView
    split
    · apply sound_memberMap
      intro v hv
      simp only [List.mem_map] at hv
      obtain ⟨f, _, rfl⟩ := hv
      exact sound_forwardedMap _ _ _ _ (ih f.target)
    · exact ih id

end Grass.Module
