import Grass.CssTree
/-
  Helper lemmas for C04 (parent-selector resolution).  Property theorems live in GrassProofs/C04.lean.
-/
namespace Grass.CssTree

/-- parents as grass produces them: the complex ends in a compound with at least one simple selector -/
def goodParent (p : Complex) : Bool :=
  match p.getLast? with
  | some (.cmp last) => !last.simples.isEmpty
  | _ => false

def getOk {α : Type} (d : α) : Except Err α → α
  | .ok a => a
  | .error _ => d

theorem flatMap_congr' {α β : Type} {f g : α → List β} (l : List α) (h : ∀ a ∈ l, f a = g a) :
    l.flatMap f = l.flatMap g := by
  induction l with
  | nil => rfl
  | cons a as ih =>
    simp only [List.flatMap_cons, h a (by simp), ih (fun x hx => h x (by simp [hx]))]

theorem mapE_ok_map {α β : Type} (f : α → Except Err β) (g : α → β) (l : List α)
    (h : ∀ a ∈ l, f a = .ok (g a)) : mapE f l = .ok (l.map g) := by
  induction l with
  | nil => rfl
  | cons a as ih =>
    simp only [mapE, h a (by simp), ih (fun x hx => h x (by simp [hx])), List.map]

theorem mergeLast_ok (sfx : Option String) (extra : List String) (p : Complex) (h : goodParent p = true) :
    ∃ r, mergeLast sfx extra p = .ok r := by
  unfold goodParent at h
  unfold mergeLast
  split at h
  · rename_i last hl
    rw [hl]
    cases sfx with
    | none => exact ⟨_, rfl⟩
    | some s =>
      simp only
      cases hs : last.simples.getLast? with
      | none => simp [List.getLast?_eq_none_iff] at hs; simp [hs] at h
      | some e => exact ⟨_, rfl⟩
  · cases h

theorem substCompound_ok (p : Complex) (k : Compound) (h : goodParent p = true) :
    ∃ r, substCompound p k = .ok r := by
  unfold substCompound
  cases k.par with
  | none => exact ⟨_, rfl⟩
  | some sfx =>
    simp only
    split
    · exact ⟨_, rfl⟩
    · exact mergeLast_ok sfx k.simples p h

theorem substComplex_ok (p : Complex) (h : goodParent p = true) : ∀ c : Complex, ∃ r, substComplex p c = .ok r
  | [] => ⟨_, rfl⟩
  | .comb x :: rest => by
    obtain ⟨r, hr⟩ := substComplex_ok p h rest
    exact ⟨.comb x :: r, by simp only [substComplex, hr]⟩
  | .cmp k :: rest => by
    obtain ⟨r, hr⟩ := substComplex_ok p h rest
    obtain ⟨q, hq⟩ := substCompound_ok p k h
    exact ⟨q ++ r, by simp only [substComplex, hr, hq]⟩

def substCompoundT (p : Complex) (k : Compound) : Complex := getOk [] (substCompound p k)
def substComplexT (p : Complex) (c : Complex) : Complex := getOk [] (substComplex p c)
def combineT (p : Complex) (c : Complex) : Complex := getOk [] (combine p c)

theorem substCompound_eq (p : Complex) (k : Compound) (h : goodParent p = true) :
    substCompound p k = .ok (substCompoundT p k) := by
  obtain ⟨r, hr⟩ := substCompound_ok p k h
  simp [substCompoundT, hr, getOk]

theorem substComplex_eq (p : Complex) (c : Complex) (h : goodParent p = true) :
    substComplex p c = .ok (substComplexT p c) := by
  obtain ⟨r, hr⟩ := substComplex_ok p h c
  simp [substComplexT, hr, getOk]

theorem combine_eq (p : Complex) (c : Complex) (h : goodParent p = true) :
    combine p c = .ok (combineT p c) := by
  unfold combineT combine
  split
  · rfl
  · rw [substComplex_eq p c h]; rfl

theorem substComplexT_comb (p : Complex) (h : goodParent p = true) (x : String) (rest : Complex) :
    substComplexT p (.comb x :: rest) = .comb x :: substComplexT p rest := by
  obtain ⟨r, hr⟩ := substComplex_ok p h rest
  simp only [substComplexT, substComplex, hr, getOk]

theorem substComplexT_cmp (p : Complex) (h : goodParent p = true) (k : Compound) (rest : Complex) :
    substComplexT p (.cmp k :: rest) = substCompoundT p k ++ substComplexT p rest := by
  obtain ⟨r, hr⟩ := substComplex_ok p h rest
  obtain ⟨q, hq⟩ := substCompound_ok p k h
  simp only [substComplexT, substCompoundT, substComplex, hr, hq, getOk]

theorem substComplexT_noParent (p : Complex) (h : goodParent p = true) :
    ∀ c : Complex, complexHasParent c = false → substComplexT p c = c
  | [], _ => by simp [substComplexT, substComplex, getOk]
  | .comb x :: rest, hc => by
    rw [substComplexT_comb p h]
    simp only [complexHasParent, List.any_cons, compHasParent, Bool.false_or] at hc
    rw [substComplexT_noParent p h rest hc]
  | .cmp k :: rest, hc => by
    rw [substComplexT_cmp p h]
    simp only [complexHasParent, List.any_cons, compHasParent, Bool.or_eq_false_iff] at hc
    rw [substComplexT_noParent p h rest hc.2]
    have : k.par = none := by cases hk : k.par <;> simp_all
    simp [substCompoundT, substCompound, this, getOk]

/-- `resolveCompound` on a compound that contains `&`, for good parents. -/
theorem resolveCompound_some (P : SelList) (hP : ∀ p ∈ P, goodParent p = true) (k : Compound)
    (hk : k.par.isSome = true) :
    resolveCompound P k = .ok (some (P.map (fun p => substCompoundT p k))) := by
  unfold resolveCompound
  cases hpar : k.par with
  | none => simp [hpar] at hk
  | some sfx =>
    simp only
    split
    · rename_i hc
      congr 2
      have : ∀ p ∈ P, substCompoundT p k = p := by
        intro p _
        simp [substCompoundT, substCompound, hpar, hc, getOk]
      rw [List.map_congr_left this]; simp
    · rename_i hc
      have : mapE (mergeLast sfx k.simples) P = .ok (P.map (fun p => substCompoundT p k)) := by
        apply mapE_ok_map
        intro p hp
        have := substCompound_eq p k (hP p hp)
        simpa [substCompound, hpar, hc] using this
      rw [this]

theorem resolveCompound_none (P : SelList) (k : Compound) (hk : k.par.isSome = false) :
    resolveCompound P k = .ok none := by
  unfold resolveCompound
  cases hpar : k.par with
  | none => rfl
  | some sfx => simp [hpar] at hk

theorem foldComps_noParent (P : SelList) :
    ∀ (cs : List Comp) (acc : List Complex), complexHasParent cs = false →
      foldComps P acc cs = .ok (acc.map (· ++ cs))
  | [], acc, _ => by simp [foldComps]
  | .comb x :: rest, acc, hc => by
    simp only [complexHasParent, List.any_cons, compHasParent, Bool.false_or] at hc
    simp only [foldComps, stepComp]
    rw [foldComps_noParent P rest _ hc]
    simp [List.map_map, Function.comp_def]
  | .cmp k :: rest, acc, hc => by
    simp only [complexHasParent, List.any_cons, compHasParent, Bool.or_eq_false_iff] at hc
    simp only [foldComps, stepComp, resolveCompound_none P k hc.1]
    rw [foldComps_noParent P rest _ hc.2]
    simp [List.map_map, Function.comp_def]

theorem parentRefs_cons (c : Comp) (rest : Complex) :
    parentRefs (c :: rest) = (if compHasParent c then 1 else 0) + parentRefs rest := by
  unfold parentRefs
  by_cases h : compHasParent c = true <;> simp [h] <;> omega

theorem parentRefs_zero (c : Complex) (h : parentRefs c = 0) : complexHasParent c = false := by
  induction c with
  | nil => rfl
  | cons a rest ih =>
    rw [parentRefs_cons] at h
    by_cases ha : compHasParent a = true
    · simp [ha] at h
    · simp only [ha] at h
      simp only [complexHasParent, List.any_cons] at *
      simp [ha, ih (by simpa using h)]

/-- one `&`-compound: every parent is substituted once, in parent order, for every prefix built so far -/
theorem foldComps_oneRef (P : SelList) (hP : ∀ p ∈ P, goodParent p = true) :
    ∀ (cs : List Comp) (acc : List Complex), parentRefs cs ≤ 1 → complexHasParent cs = true →
      foldComps P acc cs = .ok (acc.flatMap (fun a => P.map (fun p => a ++ substComplexT p cs)))
  | [], acc, _, hc => by simp [complexHasParent] at hc
  | .comb x :: rest, acc, hr, hc => by
    rw [parentRefs_cons] at hr
    simp only [complexHasParent, List.any_cons, compHasParent, Bool.false_or] at hc
    simp only [foldComps, stepComp]
    rw [foldComps_oneRef P hP rest _ (by simpa [compHasParent] using hr) hc]
    congr 1
    rw [List.flatMap_map]
    apply flatMap_congr'
    intro a _
    apply List.map_congr_left
    intro p hp
    rw [substComplexT_comb p (hP p hp)]
    simp
  | .cmp k :: rest, acc, hr, hc => by
    rw [parentRefs_cons] at hr
    by_cases hk : k.par.isSome = true
    · have hrest : complexHasParent rest = false := by
        apply parentRefs_zero
        simp only [compHasParent, hk, if_true] at hr
        omega
      simp only [foldComps, stepComp, resolveCompound_some P hP k hk]
      rw [foldComps_noParent P rest _ hrest]
      congr 1
      rw [List.map_flatMap]
      apply flatMap_congr'
      intro a _
      rw [List.map_map, List.map_map]
      apply List.map_congr_left
      intro p hp
      simp only [Function.comp]
      rw [substComplexT_cmp p (hP p hp), substComplexT_noParent p (hP p hp) rest hrest]
      simp
    · have hk' : k.par.isSome = false := by simpa using hk
      simp only [complexHasParent, List.any_cons, compHasParent, hk', Bool.false_or] at hc
      simp only [foldComps, stepComp, resolveCompound_none P k hk']
      rw [foldComps_oneRef P hP rest _ (by simpa [compHasParent, hk'] using hr) hc]
      congr 1
      rw [List.flatMap_map]
      apply flatMap_congr'
      intro a _
      apply List.map_congr_left
      intro p hp
      rw [substComplexT_cmp p (hP p hp)]
      simp [substCompoundT, substCompound, getOk, Option.isSome_eq_false_iff.mp hk' |> Option.isNone_iff_eq_none.mp]

theorem resolveComplex_column (P : SelList) (hP : ∀ p ∈ P, goodParent p = true) (c : Complex)
    (hc : parentRefs c ≤ 1) :
    resolveComplex true P c = .ok (P.map (fun p => combineT p c)) := by
  unfold resolveComplex
  by_cases h : complexHasParent c = true
  · simp only [h, Bool.not_true, Bool.false_eq_true, if_false]
    rw [foldComps_oneRef P hP c _ hc h]
    simp only [List.flatMap_cons, List.flatMap_nil, List.append_nil, List.nil_append]
    congr 1
    apply List.map_congr_left
    intro p hp
    have := combine_eq p c (hP p hp)
    simp only [combine, h, Bool.not_true, Bool.false_eq_true, if_false, substComplex_eq p c (hP p hp)] at this
    injection this
  · have h' : complexHasParent c = false := by simpa using h
    simp only [h', Bool.not_false, if_true, Bool.not_true, Bool.false_eq_true, if_false]
    congr 1
    apply List.map_congr_left
    intro p hp
    simp [combineT, combine, h', getOk]

/-! ### flatten_vertically of equally long columns is the row-major matrix -/

theorem heads_map_cons {α γ : Type} (C : List γ) (h : γ → α) (t : γ → List α) :
    heads (C.map (fun c => h c :: t c)) = C.map h := by
  induction C with
  | nil => rfl
  | cons c cs ih => simp only [List.map, heads, List.filterMap_cons, List.head?] at *; rw [ih]

theorem tails_map_cons {α γ : Type} (C : List γ) (h : γ → α) (t : γ → List α) :
    tails (C.map (fun c => h c :: t c)) = C.map t := by
  simp [tails, List.map_map, Function.comp_def]

theorem fvAux_nils {α γ : Type} (C : List γ) : ∀ n, fvAux n (C.map (fun _ => ([] : List α))) = []
  | 0 => rfl
  | n + 1 => by
    have h1 : heads (C.map (fun _ => ([] : List α))) = [] := by
      induction C with
      | nil => rfl
      | cons c cs ih => simp only [List.map, heads, List.filterMap_cons, List.head?] at *; exact ih
    have h2 : tails (C.map (fun _ => ([] : List α))) = C.map (fun _ => ([] : List α)) := by
      simp [tails, List.map_map, Function.comp_def]
    simp only [fvAux, h1, h2, List.nil_append, fvAux_nils C n]

theorem fvAux_transpose {α β γ : Type} (f : β → γ → α) (C : List γ) :
    ∀ (P : List β) (n : Nat), P.length ≤ n →
      fvAux n (C.map (fun c => P.map (fun p => f p c))) = (P.map (fun p => C.map (f p))).flatten
  | [], n, _ => by simpa using fvAux_nils C n
  | p :: ps, 0, h => by simp at h
  | p :: ps, n + 1, h => by
    simp only [List.map_cons, fvAux, List.flatten_cons]
    rw [heads_map_cons C (fun c => f p c) (fun c => ps.map (fun p => f p c)),
        tails_map_cons C (fun c => f p c) (fun c => ps.map (fun p => f p c)),
        fvAux_transpose f C ps n (by simpa using h)]

theorem maxLen_columns {α β γ : Type} (f : β → γ → α) (P : List β) (C : List γ) (hC : C ≠ []) :
    maxLen (C.map (fun c => P.map (fun p => f p c))) = P.length := by
  induction C with
  | nil => exact absurd rfl hC
  | cons c cs ih =>
    cases cs with
    | nil => simp [maxLen]
    | cons c' cs' =>
      have := ih (by simp)
      simp only [maxLen, List.map_cons, List.foldr_cons, List.length_map] at *
      rw [this]; simp

theorem flattenVertically_columns {α β γ : Type} (f : β → γ → α) (P : List β) (C : List γ) :
    flattenVertically (C.map (fun c => P.map (fun p => f p c))) = (P.map (fun p => C.map (f p))).flatten := by
  unfold flattenVertically
  by_cases hC : C = []
  · subst hC
    simp [maxLen, fvAux]
  · rw [maxLen_columns f P C hC]
    exact fvAux_transpose f C P P.length (Nat.le_refl _)

theorem flatten_singletons {α : Type} (q : List α) : (List.map (fun p => [p]) q).flatten = q := by
  induction q with
  | nil => rfl
  | cons a as ih => simp [ih]

theorem flattenVertically_single {α : Type} (q : List α) : flattenVertically [q] = q := by
  have := flattenVertically_columns (fun (p : α) (_ : Unit) => p) q [()]
  simp only [List.map_cons, List.map_nil, List.map_id'] at this
  rw [this]; exact flatten_singletons q

theorem length_flatten_const {α β γ : Type} (g : β → γ → α) (P : List β) (C : List γ) :
    (P.map (fun p => C.map (g p))).flatten.length = P.length * C.length := by
  induction P with
  | nil => simp
  | cons p ps ih => simp only [List.map_cons, List.flatten_cons, List.length_append, List.length_map, ih, List.length_cons]; rw [Nat.add_mul]; omega

/-- `resolveList` for children with at most one `&`-compound each: parents × children, parent-major. -/
theorem resolveList_matrix (P C : SelList) (hP : ∀ p ∈ P, goodParent p = true) (hC : ∀ c ∈ C, parentRefs c ≤ 1) :
    resolveList (some P) true C = .ok ((P.map (fun p => C.map (combineT p))).flatten) := by
  unfold resolveList
  simp only
  rw [mapE_ok_map (resolveComplex true P) (fun c => P.map (fun p => combineT p c)) C
        (fun c hc => resolveComplex_column P hP c (hC c hc))]
  simp only
  rw [flattenVertically_columns]

theorem matrix_spec (P C : SelList) (hP : ∀ p ∈ P, goodParent p = true) :
    mapE (fun p => mapE (combine p) C) P = .ok (P.map (fun p => C.map (combineT p))) := by
  apply mapE_ok_map
  intro p hp
  apply mapE_ok_map
  intro c _
  exact combine_eq p c (hP p hp)

/-! ### repeated `&` -/

theorem length_flatMap_const {α β : Type} (f : α → List β) (n : Nat) (l : List α) (h : ∀ a ∈ l, (f a).length = n) :
    (l.flatMap f).length = l.length * n := by
  induction l with
  | nil => simp
  | cons a as ih =>
    simp only [List.flatMap_cons, List.length_append, List.length_cons, h a (by simp),
      ih (fun x hx => h x (by simp [hx]))]
    rw [Nat.add_mul]; omega

/-- every `&`-compound multiplies the number of results by the number of parents -/
theorem foldComps_length (P : SelList) (hP : ∀ p ∈ P, goodParent p = true) :
    ∀ (cs : List Comp) (acc : List Complex),
      ∃ R, foldComps P acc cs = .ok R ∧ R.length = acc.length * P.length ^ parentRefs cs
  | [], acc => ⟨acc, rfl, by simp [parentRefs]⟩
  | .comb x :: rest, acc => by
    obtain ⟨R, h1, h2⟩ := foldComps_length P hP rest (acc.map (· ++ [.comb x]))
    refine ⟨R, by simp only [foldComps, stepComp, h1], ?_⟩
    rw [h2, parentRefs_cons]; simp [compHasParent]
  | .cmp k :: rest, acc => by
    by_cases hk : k.par.isSome = true
    · obtain ⟨R, h1, h2⟩ := foldComps_length P hP rest
        (acc.flatMap (fun nc => (P.map (fun p => substCompoundT p k)).map (nc ++ ·)))
      refine ⟨R, by simp only [foldComps, stepComp, resolveCompound_some P hP k hk, h1], ?_⟩
      rw [h2, parentRefs_cons, length_flatMap_const _ P.length acc (by intro a _; simp)]
      simp only [compHasParent, hk, if_true]
      rw [Nat.pow_add, Nat.pow_one, Nat.mul_assoc]
    · have hk' : k.par.isSome = false := by simpa using hk
      obtain ⟨R, h1, h2⟩ := foldComps_length P hP rest (acc.map (· ++ [.cmp k]))
      refine ⟨R, by simp only [foldComps, stepComp, resolveCompound_none P k hk', h1], ?_⟩
      rw [h2, parentRefs_cons]; simp [compHasParent, hk']

theorem resolveComplex_length (P : SelList) (hP : ∀ p ∈ P, goodParent p = true) (implicit : Bool) (c : Complex)
    (hc : complexHasParent c = true) :
    ∃ R, resolveComplex implicit P c = .ok R ∧ R.length = P.length ^ parentRefs c := by
  obtain ⟨R, h1, h2⟩ := foldComps_length P hP c [[]]
  exact ⟨R, by simp [resolveComplex, hc, h1], by simpa using h2⟩

end Grass.CssTree
