import Grass.Serialize
/-
  Helper lemmas for the byte level of C05 (`C05_output_valid_utf8`, `C05_charset_iff_bytes`, …):
  the modelled UTF-8 encoder produces valid UTF-8, is a homomorphism for `++`, every split point of a
  text is a character boundary of its encoding, ASCII prefixes / the BOM / the non-ASCII test can be
  read off the bytes, and the byte-level `finish` / `write_media_query` agree with the text model.
-/
namespace Grass.Serialize
set_option linter.unusedSimpArgs false
set_option linter.unusedVariables false

theorem char_range (c : Char) : c.toNat < 0xD800 ∨ (0xDFFF < c.toNat ∧ c.toNat < 0x110000) := by
  have := c.valid
  simp [UInt32.isValidChar, Nat.isValidChar] at this
  exact this

theorem bt (k : Nat) (h : k < 256) : (UInt8.ofNat k).toNat = k := by
  rw [UInt8.toNat_ofNat']; omega

theorem step_ascii (b : UInt8) (h : b.toNat < 0x80) : utf8Step U8St.init b = some U8St.init := by
  simp [utf8Step, U8St.init, h]

theorem step_cont (need lo hi : Nat) (b : UInt8) (hn : need ≠ 0) (h1 : lo ≤ b.toNat) (h2 : b.toNat ≤ hi) :
    utf8Step ⟨need, lo, hi⟩ b = some ⟨need - 1, 0x80, 0xBF⟩ := by
  simp [utf8Step, hn, h1, h2]

theorem step_lead2 (b : UInt8) (h1 : 0xC2 ≤ b.toNat) (h2 : b.toNat ≤ 0xDF) :
    utf8Step U8St.init b = some ⟨1, 0x80, 0xBF⟩ := by
  have : ¬ b.toNat < 128 := by omega
  simp [utf8Step, U8St.init, this, h1, h2]

def lo3 (n : Nat) : Nat := if n = 0xE0 then 0xA0 else 0x80
def hi3 (n : Nat) : Nat := if n = 0xED then 0x9F else 0xBF
def lo4 (n : Nat) : Nat := if n = 0xF0 then 0x90 else 0x80
def hi4 (n : Nat) : Nat := if n = 0xF4 then 0x8F else 0xBF

theorem step_lead3 (b : UInt8) (h1 : 0xE0 ≤ b.toNat) (h2 : b.toNat ≤ 0xEF) :
    utf8Step U8St.init b = some ⟨2, lo3 b.toNat, hi3 b.toNat⟩ := by
  have a1 : ¬ b.toNat < 128 := by omega
  have a2 : ¬ b.toNat ≤ 223 := by omega
  simp only [utf8Step, U8St.init, lo3, hi3]
  by_cases e0 : b.toNat = 0xE0
  · simp [e0]
  · by_cases e1 : b.toNat = 0xED
    · simp [e1]
    · have : 225 ≤ b.toNat := by omega
      simp [a1, a2, e0, e1, this, h2]

theorem step_lead4 (b : UInt8) (h1 : 0xF0 ≤ b.toNat) (h2 : b.toNat ≤ 0xF4) :
    utf8Step U8St.init b = some ⟨3, lo4 b.toNat, hi4 b.toNat⟩ := by
  have a1 : ¬ b.toNat < 128 := by omega
  have a2 : ¬ b.toNat ≤ 223 := by omega
  have a3 : ¬ b.toNat ≤ 239 := by omega
  have a4 : ¬ b.toNat = 224 := by omega
  have a5 : ¬ b.toNat = 237 := by omega
  simp only [utf8Step, U8St.init, lo4, hi4]
  by_cases e0 : b.toNat = 0xF0
  · simp [e0]
  · by_cases e1 : b.toNat = 0xF4
    · simp [e1]
    · have : 241 ≤ b.toNat := by omega
      have : b.toNat ≤ 243 := by omega
      simp [a1, a2, a3, a4, a5, e0, e1, *]

theorem utf8Run_encodeChar (c : Char) (r : Bytes) :
    utf8Run U8St.init (encodeChar c ++ r) = utf8Run U8St.init r := by
  have hr := char_range c
  unfold encodeChar
  simp only
  generalize c.toNat = n at *
  split
  · next h =>
    simp only [List.cons_append, List.nil_append, utf8Run]
    rw [step_ascii _ (by rw [bt _ (by omega)]; omega)]
  · split
    · next h1 h2 =>
      have t0 := bt (192 + n / 64) (by omega)
      have t1 := bt (128 + n % 64) (by omega)
      simp only [List.cons_append, List.nil_append, utf8Run]
      rw [step_lead2 _ (by omega) (by omega)]
      simp only
      rw [step_cont _ _ _ _ (by omega) (by omega) (by omega)]
      rfl
    · split
      · next h1 h2 h3 =>
        have t0 := bt (224 + n / 4096) (by omega)
        have t1 := bt (128 + n / 64 % 64) (by omega)
        have t2 := bt (128 + n % 64) (by omega)
        simp only [List.cons_append, List.nil_append, utf8Run]
        rw [step_lead3 _ (by omega) (by omega)]
        simp only
        rw [step_cont _ _ _ _ (by omega) (by rw [t0, t1]; unfold lo3; split <;> omega)
          (by rw [t0, t1]; unfold hi3; split <;> omega)]
        simp only
        rw [step_cont _ _ _ _ (by omega) (by omega) (by omega)]
        rfl
      · next h1 h2 h3 =>
        have t0 := bt (240 + n / 262144) (by omega)
        have t1 := bt (128 + n / 4096 % 64) (by omega)
        have t2 := bt (128 + n / 64 % 64) (by omega)
        have t3 := bt (128 + n % 64) (by omega)
        simp only [List.cons_append, List.nil_append, utf8Run]
        rw [step_lead4 _ (by omega) (by omega)]
        simp only
        rw [step_cont _ _ _ _ (by omega) (by rw [t0, t1]; unfold lo4; split <;> omega)
          (by rw [t0, t1]; unfold hi4; split <;> omega)]
        simp only
        rw [step_cont _ _ _ _ (by omega) (by omega) (by omega)]
        simp only
        rw [step_cont _ _ _ _ (by omega) (by omega) (by omega)]
        rfl

theorem utf8Run_encode (s : Str) (r : Bytes) :
    utf8Run U8St.init (encodeUtf8 s ++ r) = utf8Run U8St.init r := by
  induction s with
  | nil => rfl
  | cons c cs ih => simp only [encodeUtf8, List.append_assoc]; rw [utf8Run_encodeChar, ih]

theorem validUtf8_encode (s : Str) : validUtf8 (encodeUtf8 s) = true := by
  have := utf8Run_encode s []
  simp only [List.append_nil] at this
  unfold validUtf8; rw [this]; rfl

theorem encodeUtf8_append (a b : Str) : encodeUtf8 (a ++ b) = encodeUtf8 a ++ encodeUtf8 b := by
  induction a with
  | nil => rfl
  | cons c cs ih => simp [encodeUtf8, ih]

theorem encodeChar_length (c : Char) : (encodeChar c).length = utf8Len c := by
  unfold encodeChar utf8Len
  simp only
  split
  · rfl
  · split
    · rfl
    · split <;> rfl

theorem byteLen_eq (s : Str) : byteLen s = (encodeUtf8 s).length := by
  induction s with
  | nil => rfl
  | cons c cs ih =>
    simp only [byteLen, List.map_cons, List.sum_cons, encodeUtf8, List.length_append, encodeChar_length] at *
    rw [ih]

theorem encodeChar_head (c : Char) : ∃ b r, encodeChar c = b :: r ∧
    (if c.toNat < 0x80 then b.toNat = c.toNat ∧ r = [] else 0xC0 ≤ b.toNat) := by
  have hr := char_range c
  unfold encodeChar
  simp only
  generalize c.toNat = n at *
  split
  · next h => exact ⟨_, _, rfl, ⟨bt _ (by omega), rfl⟩⟩
  · next h =>
    split
    · exact ⟨_, _, rfl, by rw [bt _ (by omega)]; omega⟩
    · split
      · exact ⟨_, _, rfl, by rw [bt _ (by omega)]; omega⟩
      · exact ⟨_, _, rfl, by rw [bt _ (by omega)]; omega⟩

theorem boundary_append (a b : Str) :
    isCharBoundary (encodeUtf8 (a ++ b)) (encodeUtf8 a).length = true := by
  rw [encodeUtf8_append]
  unfold isCharBoundary
  split
  · rfl
  · cases b with
    | nil => simp [encodeUtf8]
    | cons c cs =>
      obtain ⟨b0, r, he, hb⟩ := encodeChar_head c
      simp only [encodeUtf8, he, List.cons_append]
      rw [List.getElem?_append_right (Nat.le_refl _)]
      simp only [Nat.sub_self, List.getElem?_cons_zero]
      unfold isContByte
      split at hb
      · have := hb.1; simp; omega
      · simp; omega

theorem slice_encode (a m z : Str) :
    sliceB (encodeUtf8 (a ++ m ++ z)) (encodeUtf8 a).length ((encodeUtf8 a).length + (encodeUtf8 m).length)
      = encodeUtf8 m := by
  simp [sliceB, encodeUtf8_append, List.take_append, List.drop_append]

theorem char_eq_of_toNat {a c : Char} (h : a.toNat = c.toNat) : a = c := by
  rw [← Char.ofNat_toNat a, ← Char.ofNat_toNat c, h]

theorem prefix_encode (p s : Str) (hp : isAsciiStr p = true) :
    (encodeUtf8 p).isPrefixOf (encodeUtf8 s) = p.isPrefixOf s := by
  induction p generalizing s with
  | nil => simp [encodeUtf8]
  | cons a p ih =>
    simp only [isAsciiStr, List.all_cons, Bool.and_eq_true, decide_eq_true_eq] at hp
    have ih' := fun s => ih s (by simpa [isAsciiStr] using hp.2)
    obtain ⟨ba, ra, hea, hba⟩ := encodeChar_head a
    rw [if_pos hp.1] at hba
    obtain ⟨hba1, hra⟩ := hba
    subst hra
    cases s with
    | nil => simp [encodeUtf8, hea]
    | cons c s =>
      obtain ⟨bc, rc, hec, hbc⟩ := encodeChar_head c
      simp only [encodeUtf8, hea, hec, List.cons_append, List.nil_append, List.isPrefixOf]
      split at hbc
      · next hc =>
        obtain ⟨hbc1, hrc⟩ := hbc
        subst hrc
        simp only [List.nil_append, ih']
        congr 1
        by_cases e : a = c
        · subst e
          have : ba = bc := UInt8.toNat_inj.mp (by omega)
          subst this; simp
        · have : ba ≠ bc := by
            intro hb; apply e; apply char_eq_of_toNat; rw [← hba1, ← hbc1, hb]
          rw [beq_eq_false_iff_ne.mpr this, beq_eq_false_iff_ne.mpr e]
      · next hc =>
        have h1 : ba ≠ bc := by intro hb; rw [hb] at hba1; omega
        have h2 : a ≠ c := by intro hb; rw [hb] at hp; omega
        rw [beq_eq_false_iff_ne.mpr h1, beq_eq_false_iff_ne.mpr h2]; rfl

theorem nab (k : Nat) (h : k < 256) (h2 : 128 ≤ k) : nonAsciiB (UInt8.ofNat k) = true := by
  unfold nonAsciiB; rw [bt k h]; simpa using h2

theorem any_nonAscii_char (c : Char) : (encodeChar c).any nonAsciiB = isNonAscii c := by
  have hr := char_range c
  unfold encodeChar isNonAscii
  simp only
  generalize c.toNat = n at *
  split
  · next h =>
    have : ¬ 128 ≤ n := by omega
    simp [nonAsciiB, bt n (by omega), this]
  · next h =>
    have hR : decide (n ≥ 128) = true := by simp; omega
    rw [hR]
    split
    · simp only [List.any_cons, nab (192 + n / 64) (by omega) (by omega), Bool.true_or]
    · split
      · simp only [List.any_cons, nab (224 + n / 4096) (by omega) (by omega), Bool.true_or]
      · simp only [List.any_cons, nab (240 + n / 262144) (by omega) (by omega), Bool.true_or]

theorem any_nonAscii (s : Str) : (encodeUtf8 s).any nonAsciiB = s.any isNonAscii := by
  induction s with
  | nil => rfl
  | cons c cs ih => simp [encodeUtf8, List.any_append, any_nonAscii_char, ih]

theorem encode_bom : encodeChar bom = bomB := by decide

theorem bom_prefix_char (c : Char) (r : Bytes) : bomB.isPrefixOf (encodeChar c ++ r) = (c == bom) := by
  by_cases e : c = bom
  · subst e; rw [encode_bom]; simp [bomB, List.isPrefixOf]
  · have hne : c.toNat ≠ 0xFEFF := by
      intro h; apply e; apply char_eq_of_toNat; rw [h]; decide
    have hr := char_range c
    rw [beq_eq_false_iff_ne.mpr e]
    apply Bool.eq_false_iff.mpr
    intro hpf
    unfold encodeChar bomB at hpf
    simp only at hpf
    generalize c.toNat = n at *
    split at hpf
    · simp only [List.cons_append, List.isPrefixOf, Bool.and_eq_true, beq_iff_eq] at hpf
      have h0 : (UInt8.ofNat n).toNat = 239 := by rw [← hpf.1]; rfl
      rw [bt _ (by omega)] at h0; omega
    · split at hpf
      · simp only [List.cons_append, List.isPrefixOf, Bool.and_eq_true, beq_iff_eq] at hpf
        have h0 : (UInt8.ofNat (192 + n / 64)).toNat = 239 := by rw [← hpf.1]; rfl
        rw [bt _ (by omega)] at h0; omega
      · split at hpf
        · simp only [List.cons_append, List.nil_append, List.isPrefixOf, Bool.and_eq_true, beq_iff_eq] at hpf
          have h0 : (UInt8.ofNat (224 + n / 4096)).toNat = 239 := by rw [← hpf.1]; rfl
          have h1 : (UInt8.ofNat (128 + n / 64 % 64)).toNat = 187 := by rw [← hpf.2.1]; rfl
          have h2 : (UInt8.ofNat (128 + n % 64)).toNat = 191 := by rw [← hpf.2.2.1]; rfl
          rw [bt _ (by omega)] at h0 h1 h2; omega
        · simp only [List.cons_append, List.isPrefixOf, Bool.and_eq_true, beq_iff_eq] at hpf
          have h0 : (UInt8.ofNat (240 + n / 262144)).toNat = 239 := by rw [← hpf.1]; rfl
          rw [bt _ (by omega)] at h0; omega

theorem bom_prefix (s : Str) : bomB.isPrefixOf (encodeUtf8 s) = (s.head? == some bom) := by
  cases s with
  | nil => rfl
  | cons c cs => simp only [encodeUtf8, bom_prefix_char, List.head?_cons]; simp

theorem hasCharsetOrBomB_encode (s : Str) : hasCharsetOrBomB (encodeUtf8 s) = hasCharsetOrBom s := by
  unfold hasCharsetOrBomB hasCharsetOrBom charsetPrefixB startsWith
  rw [prefix_encode _ _ (by decide), bom_prefix]
  cases s with
  | nil => simp
  | cons c cs => by_cases e : c = bom <;> simp [e]

theorem encode_isEmpty (s : Str) : (encodeUtf8 s).isEmpty = s.isEmpty := by
  cases s with
  | nil => rfl
  | cons c cs =>
    obtain ⟨b, r, he, _⟩ := encodeChar_head c
    simp [encodeUtf8, he]

theorem optNlB_encode (st : Style) : optNlB st = encodeUtf8 (optNl st) := by
  cases st <;> decide

theorem finishB_encode (st : Style) (cs : Bool) (t : Top) :
    finishB st cs (encodeUtf8 t.buf) t.prevSemi = encodeUtf8 (finish st cs t) := by
  unfold finishB finish
  simp only [any_nonAscii]
  have e1 : (if t.prevSemi = true then encodeUtf8 t.buf ++ [0x3B] else encodeUtf8 t.buf)
      = encodeUtf8 (if t.prevSemi = true then t.buf ++ [';'] else t.buf) := by
    split
    · rw [encodeUtf8_append]; rfl
    · rfl
  rw [e1]
  generalize (if t.prevSemi = true then t.buf ++ [';'] else t.buf) = b1
  have e2 : (if (!(encodeUtf8 b1).isEmpty) = true then encodeUtf8 b1 ++ optNlB st else encodeUtf8 b1)
      = encodeUtf8 (if (!b1.isEmpty) = true then b1 ++ optNl st else b1) := by
    rw [encode_isEmpty]
    split
    · rw [encodeUtf8_append, optNlB_encode]
    · rfl
  rw [e2]
  generalize (if (!b1.isEmpty) = true then b1 ++ optNl st else b1) = b2
  split
  · show bomB ++ encodeUtf8 b2 = encodeUtf8 (bom :: b2)
    rw [← encode_bom]; rfl
  · split
    · rw [encodeUtf8_append]; rfl
    · rfl

theorem joinWithB_encode (sep : Str) (l : List Str) :
    joinWithB (encodeUtf8 sep) (l.map encodeUtf8) = encodeUtf8 (joinWith sep l) := by
  induction l with
  | nil => rfl
  | cons x r ih =>
    cases r with
    | nil => rfl
    | cons y r' =>
      simp only [List.map_cons, joinWithB, joinWith, encodeUtf8_append] at *
      rw [ih]

theorem not_slice (c : Str) (hp : startsWith c (lit "(not ") = true) (hk : notSliceOk c = true) :
    notPrefixB.length ≤ (encodeUtf8 c).length - 1 ∧
    isCharBoundary (encodeUtf8 c) notPrefixB.length = true ∧
    isCharBoundary (encodeUtf8 c) ((encodeUtf8 c).length - 1) = true ∧
    sliceB (encodeUtf8 c) notPrefixB.length ((encodeUtf8 c).length - 1) = encodeUtf8 ((c.drop 5).dropLast) := by
  simp only [notSliceOk, Bool.and_eq_true, decide_eq_true_eq] at hk
  obtain ⟨hlen, hla⟩ := hk
  have hc : lit "(not " ++ c.drop 5 = c := List.prefix_iff_eq_append.mp (List.isPrefixOf_iff_prefix.mp hp)
  generalize htd : c.drop 5 = t at hc
  have htl : t.length = c.length - 5 := by rw [← htd]; simp
  have htne : t ≠ [] := by intro h; rw [h] at htl; simp at htl; omega
  have hsplit : t = t.dropLast ++ [t.getLast htne] := (List.dropLast_concat_getLast htne).symm
  generalize t.dropLast = m at hsplit
  generalize t.getLast htne = x at hsplit
  subst hsplit
  subst hc
  have hx : x.toNat < 0x80 := by
    have e : (lit "(not " ++ (m ++ [x])).getLast? = some x := by
      rw [← List.append_assoc, List.getLast?_concat]
    simpa [lastAscii, e] using hla
  obtain ⟨bx, rx, hex, hbx⟩ := encodeChar_head x
  rw [if_pos hx] at hbx
  obtain ⟨_, hrx⟩ := hbx
  subst hrx
  have hL : (encodeUtf8 (lit "(not " ++ (m ++ [x]))).length - 1 = notPrefixB.length + (encodeUtf8 m).length := by
    simp [encodeUtf8_append, encodeUtf8, hex, notPrefixB]
  rw [hL]
  refine ⟨by omega, ?_, ?_, ?_⟩
  · exact boundary_append (lit "(not ") (m ++ [x])
  · have := boundary_append (lit "(not " ++ m) [x]
    simp only [encodeUtf8_append, List.length_append, List.append_assoc] at this ⊢
    exact this
  · have := slice_encode (lit "(not ") m [x]
    simp only [List.append_assoc] at this
    exact this

theorem queryOutB_encode (q : Query) (h : q.sliceOk = true) : queryOutB q.toB = encodeUtf8 (queryOut q) := by
  obtain ⟨md, mt, conds, conj⟩ := q
  unfold queryOutB queryOut Query.toB
  simp only [encodeUtf8_append]
  congr 1
  · congr 1
    · cases md <;> simp [encodeUtf8_append, encodeUtf8] <;> rfl
    · cases mt with
      | none => rfl
      | some t =>
        simp only [Option.map_some, encodeUtf8_append, List.isEmpty_map]
        congr 1
        split <;> rfl
  · match conds, h with
    | [], _ => cases conj <;> rfl
    | [c], h =>
      simp only [List.map_cons, List.map_nil]
      have hpe : notPrefixB.isPrefixOf (encodeUtf8 c) = startsWith c (lit "(not ") := by
        unfold notPrefixB startsWith; exact prefix_encode _ _ (by decide)
      rw [hpe]
      cases hp : startsWith c (lit "(not ")
      · simp
      · simp only [Query.sliceOk, hp, Bool.not_true, Bool.false_or] at h
        have := (not_slice c hp h).2.2.2
        simp only [if_true, encodeUtf8_append]
        rw [this]
    | c :: d :: r, _ =>
      have := joinWithB_encode (if conj = true then lit " and " else lit " or ") (c :: d :: r)
      rw [← this]
      cases conj <;> rfl

theorem serializeB_eq (st : Style) (cs : Bool) (t : List Stmt) :
    serializeB st cs t = encodeUtf8 (serialize st cs t) := by
  unfold serializeB serialize
  exact finishB_encode st cs _

theorem drop_prefix_encode (p t : Str) :
    (encodeUtf8 (p ++ t)).drop (encodeUtf8 p).length = encodeUtf8 t := by
  rw [encodeUtf8_append, List.drop_left]

theorem charsetOkB_encode (cs : Bool) (s : Str) : charsetOkB cs (encodeUtf8 s) = charsetOk cs s := by
  unfold charsetOkB charsetOk
  simp only [hasCharsetOrBomB_encode]
  have hp : charsetPrefixB.isPrefixOf (encodeUtf8 s) = startsWith s charsetPrefix := by
    unfold charsetPrefixB startsWith; exact prefix_encode _ _ (by decide)
  rw [hp, bom_prefix]
  have hrest : (if startsWith s charsetPrefix = true then (encodeUtf8 s).drop charsetPrefixB.length
        else if (s.head? == some bom) = true then (encodeUtf8 s).drop 3 else encodeUtf8 s)
      = encodeUtf8 (if startsWith s charsetPrefix = true then s.drop charsetPrefix.length
        else if s.head? = some bom then s.drop 1 else s) := by
    split
    · next h =>
      have hc : charsetPrefix ++ s.drop charsetPrefix.length = s :=
        List.prefix_iff_eq_append.mp (List.isPrefixOf_iff_prefix.mp h)
      conv => lhs; rw [← hc]
      exact drop_prefix_encode _ _
    · split
      · next h =>
        have h' : s.head? = some bom := by simpa using h
        rw [if_pos h']
        cases s with
        | nil => simp at h'
        | cons c r =>
          simp only [List.head?_cons, Option.some.injEq] at h'
          subst h'
          simp only [encodeUtf8, encode_bom, List.drop_one, List.tail_cons]
          rfl
      · next h =>
        have h' : ¬ s.head? = some bom := by simpa using h
        rw [if_neg h']
  rw [hrest, any_nonAscii]
  generalize hasCharsetOrBom s = x
  generalize List.any _ isNonAscii = y
  cases x <;> cases cs <;> cases y <;> rfl

theorem charset_iff_bytes (st : Style) (cs : Bool) (t : List Stmt)
    (hg : hasCharsetOrBomB (serializeB st false t) = false) :
    hasCharsetOrBomB (serializeB st cs t) = (cs && (encodeUtf8 (body st t)).any nonAsciiB) := by
  rw [serializeB_eq, hasCharsetOrBomB_encode] at *
  rw [any_nonAscii]
  unfold serialize body at *
  generalize topLoop st Top.init t = T at *
  unfold finish at *
  cases cs <;> cases h : T.buf.any isNonAscii <;> cases st <;>
    simp_all [Style.isCompressed, hasCharsetOrBom, startsWith, charsetPrefix, lit]

end Grass.Serialize
