import Grass.Diag
/-
  Helper lemmas for C19, part 3: every state predicate that the five primitive state updates
  (`doDebug`, `doWarn`, `skipWarn`, `defMixin`, `defFunc`) preserve is preserved by the whole
  interpreter, for every fuel, program, configuration and start state.
-/
namespace Grass.Diag

/-- The primitive updates preserve `Inv`. -/
structure Prim (cfg : Cfg) (Inv : St → Prop) : Prop where
  debug : ∀ st f l m, Inv st → Inv (st.doDebug cfg f l m)
  warn : ∀ st f l m, Inv st → Inv (st.doWarn cfg f l m)
  skip : ∀ st f l, cfg.warnDedupBySpan = true → Inv st → Inv (st.skipWarn f l)
  defM : ∀ st m d, Inv st → Inv (st.defMixin m d)
  defF : ∀ st f d, Inv st → Inv (st.defFunc f d)

/-- `Inv` holds of the state a result carries (if it carries one). -/
def Res.Holds {α : Type} (Inv : St → Prop) : Res α → Prop
  | .ok _ st => Inv st
  | .err _ st => Inv st
  | _ => True

theorem exec_preserves (cfg : Cfg) (prog : List Stmts) (Inv : St → Prop) (P : Prim cfg Inv) :
    ∀ fuel : Nat,
      (∀ file line env e st, Inv st → (evalExpr cfg prog fuel file line env e st).Holds Inv) ∧
      (∀ file env s st, Inv st → (execStmt cfg prog fuel file env s st).Holds Inv) ∧
      (∀ file env ss st, Inv st → (execStmts cfg prog fuel file env ss st).Holds Inv) ∧
      (∀ file env x body i dir count st, Inv st →
          (execFor cfg prog fuel file env x body i dir count st).Holds Inv) := by
  intro fuel
  induction fuel with
  | zero =>
    refine ⟨?_, ?_, ?_, ?_⟩ <;> intros <;> simp [evalExpr, execStmt, execStmts, execFor, Res.Holds]
  | succ fuel ih =>
    obtain ⟨ihE, ihS, ihL, ihF⟩ := ih
    have hE : ∀ file line env e st, Inv st →
        (evalExpr cfg prog (fuel + 1) file line env e st).Holds Inv := by
      intro file line env e st hst
      cases e with
      | int n => rw [evalExpr]; exact hst
      | str id => rw [evalExpr]; exact hst
      | var x =>
        rw [evalExpr]
        split <;> exact hst
      | call f arg =>
        rw [evalExpr]
        have h1 := ihE file line env arg st hst
        cases hr : evalExpr cfg prog fuel file line env arg st with
        | ok v st1 =>
          rw [hr] at h1
          simp only
          split
          · trivial
          · rename_i d _
            have h2 := ihL d.file [(d.param, v)] d.body st1 h1
            cases hb : execStmts cfg prog fuel d.file [(d.param, v)] d.body st1 with
            | ok u st2 =>
              rw [hb] at h2
              exact ihE _ _ _ _ _ h2
            | err e st2 => rw [hb] at h2; exact h2
            | outOfFuel => trivial
            | unsupported => trivial
        | err e st1 => rw [hr] at h1; exact h1
        | outOfFuel => trivial
        | unsupported => trivial
    -- the shape shared by @debug/@warn/@error/letCall/@include-with-argument: evaluate, then continue
    have evalThen : ∀ {α : Type} file line env e st (k : Val → St → Res α), Inv st →
        (∀ v st1, Inv st1 → (k v st1).Holds Inv) →
        (match evalExpr cfg prog fuel file line env e st with
          | .ok v st1 => k v st1
          | .err e st1 => .err e st1
          | .outOfFuel => .outOfFuel
          | .unsupported => .unsupported : Res α).Holds Inv := by
      intro α file line env e st k hst hk
      have h1 := ihE file line env e st hst
      cases hr : evalExpr cfg prog fuel file line env e st with
      | ok v st1 => rw [hr] at h1; exact hk v st1 h1
      | err e st1 => rw [hr] at h1; exact h1
      | outOfFuel => trivial
      | unsupported => trivial
    have hS : ∀ file env s st, Inv st → (execStmt cfg prog (fuel + 1) file env s st).Holds Inv := by
      intro file env s st hst
      cases s with
      | debug line e =>
        rw [execStmt]
        split
        · exact P.debug _ _ _ _ hst
        · exact evalThen file line env e st _ hst (fun v st1 h => P.debug _ _ _ _ h)
      | warn line e =>
        rw [execStmt]
        split
        · rename_i hc
          simp only [Bool.and_eq_true] at hc
          exact P.skip _ _ _ hc.1 hst
        · exact evalThen file line env e st _ hst (fun v st1 h => P.warn _ _ _ _ h)
      | error line e =>
        rw [execStmt]
        exact evalThen file line env e st _ hst (fun v st1 h => h)
      | forLoop line x frm to inclusive body =>
        rw [execStmt]
        exact ihF _ _ _ _ _ _ _ _ hst
      | ifElse line c thn els =>
        cases c with
        | lit b => rw [execStmt]; exact ihL _ _ _ _ hst
        | varEq x n =>
          rw [execStmt]
          split
          · exact hst
          · exact ihL _ _ _ _ hst
      | block body => rw [execStmt]; exact ihL _ _ _ _ hst
      | mixinDef m p body => rw [execStmt]; exact P.defM _ _ _ hst
      | funcDef f p body rl ret => rw [execStmt]; exact P.defF _ _ _ hst
      | incl line m arg =>
        rw [execStmt]
        split
        · exact hst
        · rename_i d _
          split
          · exact ihL _ _ _ _ hst
          · exact evalThen file line env _ st _ hst (fun v st1 h => ihL _ _ _ _ h)
          · trivial
      | letCall line e =>
        rw [execStmt]
        exact evalThen file line env e st _ hst (fun v st1 h => h)
      | importFile line k =>
        rw [execStmt]
        split
        · trivial
        · exact ihL _ _ _ _ hst
    have hL : ∀ file env ss st, Inv st → (execStmts cfg prog (fuel + 1) file env ss st).Holds Inv := by
      intro file env ss st hst
      cases ss with
      | nil => rw [execStmts]; exact hst
      | cons s rest =>
        rw [execStmts]
        have h1 := ihS file env s st hst
        cases hr : execStmt cfg prog fuel file env s st with
        | ok u st1 => rw [hr] at h1; exact ihL _ _ _ _ h1
        | err e st1 => rw [hr] at h1; exact h1
        | outOfFuel => trivial
        | unsupported => trivial
    have hF : ∀ file env x body i dir count st, Inv st →
        (execFor cfg prog (fuel + 1) file env x body i dir count st).Holds Inv := by
      intro file env x body i dir count st hst
      cases count with
      | zero => rw [execFor]; exact hst
      | succ count =>
        rw [execFor]
        have h1 := ihL file ((x, .int i) :: env) body st hst
        cases hr : execStmts cfg prog fuel file ((x, .int i) :: env) body st with
        | ok u st1 => rw [hr] at h1; exact ihF _ _ _ _ _ _ _ _ h1
        | err e st1 => rw [hr] at h1; exact h1
        | outOfFuel => trivial
        | unsupported => trivial
    exact ⟨hE, hS, hL, hF⟩

theorem run_preserves (cfg : Cfg) (Inv : St → Prop) (P : Prim cfg Inv) (h0 : Inv St.init)
    (fuel : Nat) (prog : List Stmts) : (run cfg fuel prog).Holds Inv := by
  unfold run
  cases prog with
  | nil => trivial
  | cons entry rest => exact (exec_preserves cfg _ Inv P fuel).2.2.1 _ _ _ _ h0

end Grass.Diag
