import Grass.Diag
/-
  Helper lemmas for C19, part 3: every state predicate that the primitive state updates
  (`doDebug`, `doWarn`, `skipWarn`, and the administrative ones that leave `log`, `visited` and
  `emitted` alone: declarations, scope exit, content stack, module bookkeeping) preserve is
  preserved by the whole interpreter, for every fuel, program, configuration and start state.
-/
namespace Grass.Diag

/-- The primitive updates preserve `Inv`. -/
structure Prim (cfg : Cfg) (Inv : St → Prop) : Prop where
  debug : ∀ st f l m, Inv st → Inv (st.doDebug cfg f l m)
  warn : ∀ st f l m, Inv st → Inv (st.doWarn cfg f l m)
  skip : ∀ st f l, cfg.warnDedupBySpan = true → Inv st → Inv (st.skipWarn f l)
  /-- any update that leaves the three logging fields alone -/
  admin : ∀ st st' : St, st'.log = st.log → st'.visited = st.visited → st'.emitted = st.emitted →
    Inv st → Inv st'

/-- `Inv` holds of the state a result carries (if it carries one). -/
def Res.Holds {α : Type} (Inv : St → Prop) : Res α → Prop
  | .ok _ st => Inv st
  | .err _ st => Inv st
  | _ => True

theorem Res.Holds_popContent {α : Type} {cfg : Cfg} {Inv : St → Prop} (P : Prim cfg Inv) (r : Res α)
    (h : r.Holds Inv) : r.popContent.Holds Inv := by
  cases r with
  | ok a st => exact P.admin st _ rfl rfl rfl h
  | err e st => exact h
  | outOfFuel => trivial
  | unsupported => trivial

theorem exec_preserves (cfg : Cfg) (prog : List Stmts) (Inv : St → Prop) (P : Prim cfg Inv) :
    ∀ fuel : Nat,
      (∀ ctx line env e st, Inv st → (evalExpr cfg prog fuel ctx line env e st).Holds Inv) ∧
      (∀ ctx env s st, Inv st → (execStmt cfg prog fuel ctx env s st).Holds Inv) ∧
      (∀ ctx env ss st, Inv st → (execStmts cfg prog fuel ctx env ss st).Holds Inv) ∧
      (∀ ctx env x body i dir count st, Inv st →
          (execFor cfg prog fuel ctx env x body i dir count st).Holds Inv) ∧
      (∀ ctx env x body vals st, Inv st →
          (execEach cfg prog fuel ctx env x body vals st).Holds Inv) ∧
      (∀ ctx env x body i bound step st, Inv st →
          (execWhile cfg prog fuel ctx env x body i bound step st).Holds Inv) ∧
      (∀ ctx line env m arg cnt st, Inv st →
          (execIncl cfg prog fuel ctx line env m arg cnt st).Holds Inv) := by
  intro fuel
  induction fuel with
  | zero =>
    refine ⟨?_, ?_, ?_, ?_, ?_, ?_, ?_⟩ <;> intros <;>
      simp [evalExpr, execStmt, execStmts, execFor, execEach, execWhile, execIncl, Res.Holds]
  | succ fuel ih =>
    obtain ⟨ihE, ihS, ihL, ihF, ihC, ihW, ihI⟩ := ih
    have hE : ∀ ctx line env e st, Inv st →
        (evalExpr cfg prog (fuel + 1) ctx line env e st).Holds Inv := by
      intro ctx line env e st hst
      cases e with
      | int n => rw [evalExpr]; exact hst
      | str id => rw [evalExpr]; exact hst
      | var x =>
        rw [evalExpr]
        split <;> exact hst
      | call f arg =>
        rw [evalExpr]
        have h1 := ihE ctx line env arg st hst
        cases hr : evalExpr cfg prog fuel ctx line env arg st with
        | ok v st1 =>
          rw [hr] at h1
          simp only
          split
          · trivial
          · rename_i d _
            have h2 := ihL d.ctx [(d.param, v)] d.body st1 h1
            cases hb : execStmts cfg prog fuel d.ctx [(d.param, v)] d.body st1 with
            | ok u st2 =>
              rw [hb] at h2
              exact ihE _ _ _ _ _ h2
            | err e st2 => rw [hb] at h2; exact h2
            | outOfFuel => trivial
            | unsupported => trivial
        | err e st1 => rw [hr] at h1; exact h1
        | outOfFuel => trivial
        | unsupported => trivial
      | pair a b =>
        rw [evalExpr]
        have h1 := ihE ctx line env a st hst
        cases hr : evalExpr cfg prog fuel ctx line env a st with
        | ok va st1 =>
          rw [hr] at h1
          simp only
          have h2 := ihE ctx line env b st1 h1
          cases hb : evalExpr cfg prog fuel ctx line env b st1 with
          | ok vb st2 =>
            rw [hb] at h2
            simp only
            split
            · trivial
            · exact h2
          | err e st2 => rw [hb] at h2; exact h2
          | outOfFuel => trivial
          | unsupported => trivial
        | err e st1 => rw [hr] at h1; exact h1
        | outOfFuel => trivial
        | unsupported => trivial
    -- the shape shared by @debug/@warn/@error/letCall/@include-with-argument: evaluate, then continue
    have evalThen : ∀ {α : Type} ctx line env e st (k : Val → St → Res α), Inv st →
        (∀ v st1, Inv st1 → (k v st1).Holds Inv) →
        (match evalExpr cfg prog fuel ctx line env e st with
          | .ok v st1 => k v st1
          | .err e st1 => .err e st1
          | .outOfFuel => .outOfFuel
          | .unsupported => .unsupported : Res α).Holds Inv := by
      intro α ctx line env e st k hst hk
      have h1 := ihE ctx line env e st hst
      cases hr : evalExpr cfg prog fuel ctx line env e st with
      | ok v st1 => rw [hr] at h1; exact hk v st1 h1
      | err e st1 => rw [hr] at h1; exact h1
      | outOfFuel => trivial
      | unsupported => trivial
    -- run a statement list, then apply an administrative update to the final state
    have listThen : ∀ ctx env ss st (k : St → St), Inv st →
        (∀ st1, (k st1).log = st1.log ∧ (k st1).visited = st1.visited ∧ (k st1).emitted = st1.emitted) →
        (match execStmts cfg prog fuel ctx env ss st with
          | .ok _ st1 => .ok () (k st1)
          | r => r : Res Unit).Holds Inv := by
      intro ctx env ss st k hst hk
      have h1 := ihL ctx env ss st hst
      cases hr : execStmts cfg prog fuel ctx env ss st with
      | ok u st1 =>
        rw [hr] at h1
        exact P.admin st1 _ (hk st1).1 (hk st1).2.1 (hk st1).2.2 h1
      | err e st1 => rw [hr] at h1; exact h1
      | outOfFuel => trivial
      | unsupported => trivial
    have hS : ∀ ctx env s st, Inv st → (execStmt cfg prog (fuel + 1) ctx env s st).Holds Inv := by
      intro ctx env s st hst
      cases s with
      | debug line e =>
        rw [execStmt]
        split
        · exact P.debug _ _ _ _ hst
        · exact evalThen ctx line env e st _ hst (fun v st1 h => P.debug _ _ _ _ h)
      | warn line e =>
        rw [execStmt]
        split
        · rename_i hc
          simp only [Bool.and_eq_true] at hc
          exact P.skip _ _ _ hc.1 hst
        · exact evalThen ctx line env e st _ hst (fun v st1 h => P.warn _ _ _ _ h)
      | error line e =>
        rw [execStmt]
        exact evalThen ctx line env e st _ hst (fun v st1 h => h)
      | forLoop line x frm to inclusive body =>
        rw [execStmt]
        exact ihF _ _ _ _ _ _ _ _ hst
      | ifElse line c thn els =>
        cases c with
        | lit b => rw [execStmt]; exact ihL _ _ _ _ hst
        | varEq x n =>
          rw [execStmt]
          split
          · exact hst
          · exact ihL _ _ _ _ hst
      | block body =>
        rw [execStmt]
        exact listThen ctx env body st (fun st1 => st1.restoreDefs st) hst (fun _ => ⟨rfl, rfl, rfl⟩)
      | mixinDef m p body => rw [execStmt]; exact P.admin st _ rfl rfl rfl hst
      | funcDef f p body rl ret => rw [execStmt]; exact P.admin st _ rfl rfl rfl hst
      | incl line m arg => rw [execStmt]; exact ihI _ _ _ _ _ _ _ hst
      | inclContent line m arg body => rw [execStmt]; exact ihI _ _ _ _ _ _ _ hst
      | content line =>
        rw [execStmt]
        split
        · rename_i c rest _
          exact listThen c.ctx c.env c.body (st.setContents rest) (fun st1 => st1.setContents (some c :: rest))
            (P.admin st _ rfl rfl rfl hst) (fun _ => ⟨rfl, rfl, rfl⟩)
        · exact hst
      | letCall line e =>
        rw [execStmt]
        exact evalThen ctx line env e st _ hst (fun v st1 h => h)
      | importFile line k =>
        rw [execStmt]
        split
        · trivial
        · trivial
        · exact ihL _ _ _ _ hst
      | each line x vals body => rw [execStmt]; exact ihC _ _ _ _ _ _ hst
      | whileLoop line x init bound step body => rw [execStmt]; exact ihW _ _ _ _ _ _ _ _ hst
      | loadMod line k forward =>
        rw [execStmt]
        split
        · trivial
        · split
          · cases forward
            · exact P.admin st _ rfl rfl rfl hst
            · exact P.admin st _ rfl rfl rfl hst
          · split
            · trivial
            · rename_i body _
              cases forward
              · exact listThen ⟨k, k⟩ [] body st (fun st1 => (st1.markLoaded k).addVis ctx.mod k) hst
                  (fun _ => ⟨rfl, rfl, rfl⟩)
              · exact listThen ⟨k, k⟩ [] body st (fun st1 => (st1.markLoaded k).addFwd ctx.mod k) hst
                  (fun _ => ⟨rfl, rfl, rfl⟩)
    have hL : ∀ ctx env ss st, Inv st → (execStmts cfg prog (fuel + 1) ctx env ss st).Holds Inv := by
      intro ctx env ss st hst
      cases ss with
      | nil => rw [execStmts]; exact hst
      | cons s rest =>
        rw [execStmts]
        have h1 := ihS ctx env s st hst
        cases hr : execStmt cfg prog fuel ctx env s st with
        | ok u st1 => rw [hr] at h1; exact ihL _ _ _ _ h1
        | err e st1 => rw [hr] at h1; exact h1
        | outOfFuel => trivial
        | unsupported => trivial
    have hF : ∀ ctx env x body i dir count st, Inv st →
        (execFor cfg prog (fuel + 1) ctx env x body i dir count st).Holds Inv := by
      intro ctx env x body i dir count st hst
      cases count with
      | zero => rw [execFor]; exact hst
      | succ count =>
        rw [execFor]
        have h1 := ihL ctx ((x, .int i) :: env) body st hst
        cases hr : execStmts cfg prog fuel ctx ((x, .int i) :: env) body st with
        | ok u st1 => rw [hr] at h1; exact ihF _ _ _ _ _ _ _ _ h1
        | err e st1 => rw [hr] at h1; exact h1
        | outOfFuel => trivial
        | unsupported => trivial
    have hC : ∀ ctx env x body vals st, Inv st →
        (execEach cfg prog (fuel + 1) ctx env x body vals st).Holds Inv := by
      intro ctx env x body vals st hst
      cases vals with
      | nil => rw [execEach]; exact hst
      | cons v vs =>
        rw [execEach]
        have h1 := ihL ctx ((x, v) :: env) body st hst
        cases hr : execStmts cfg prog fuel ctx ((x, v) :: env) body st with
        | ok u st1 => rw [hr] at h1; exact ihC _ _ _ _ _ _ h1
        | err e st1 => rw [hr] at h1; exact h1
        | outOfFuel => trivial
        | unsupported => trivial
    have hW : ∀ ctx env x body i bound step st, Inv st →
        (execWhile cfg prog (fuel + 1) ctx env x body i bound step st).Holds Inv := by
      intro ctx env x body i bound step st hst
      rw [execWhile]
      split
      · have h1 := ihL ctx ((x, .int i) :: env) body st hst
        cases hr : execStmts cfg prog fuel ctx ((x, .int i) :: env) body st with
        | ok u st1 => rw [hr] at h1; exact ihW _ _ _ _ _ _ _ _ h1
        | err e st1 => rw [hr] at h1; exact h1
        | outOfFuel => trivial
        | unsupported => trivial
      · exact hst
    have hI : ∀ ctx line env m arg cnt st, Inv st →
        (execIncl cfg prog (fuel + 1) ctx line env m arg cnt st).Holds Inv := by
      intro ctx line env m arg cnt st hst
      rw [execIncl]
      split
      · exact hst
      · rename_i d _
        split
        · exact hst
        · split
          · exact Res.Holds_popContent P _ (ihL _ _ _ _ (P.admin st _ rfl rfl rfl hst))
          · exact evalThen ctx line env _ st _ hst
              (fun v st1 h => Res.Holds_popContent P _ (ihL _ _ _ _ (P.admin st1 _ rfl rfl rfl h)))
          · trivial
    exact ⟨hE, hS, hL, hF, hC, hW, hI⟩

theorem run_preserves (cfg : Cfg) (Inv : St → Prop) (P : Prim cfg Inv) (h0 : Inv St.init)
    (fuel : Nat) (prog : List Stmts) : (run cfg fuel prog).Holds Inv := by
  unfold run
  cases prog with
  | nil => trivial
  | cons entry rest => exact (exec_preserves cfg _ Inv P fuel).2.2.1 _ _ _ _ h0

end Grass.Diag
