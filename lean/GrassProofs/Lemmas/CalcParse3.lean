import GrassProofs.Lemmas.CalcParse
/-
  Helper lemmas for C16, part 3: the fuel `parseFuel ts = 4·|ts| + 3` is enough for every token list
  that can be read at all.
-/
namespace Grass.Calc

/-- every successful call consumes input (loops: does not produce input) -/
def Cons (f : Nat) : Prop :=
  (∀ ts a ts', pAtom f ts = some (a, ts') → ts'.length < ts.length) ∧
  (∀ acc ts a ts', pProdLoop f acc ts = some (a, ts') → ts'.length ≤ ts.length) ∧
  (∀ ts a ts', pProd f ts = some (a, ts') → ts'.length < ts.length) ∧
  (∀ acc ts a ts', pSumLoop f acc ts = some (a, ts') → ts'.length ≤ ts.length) ∧
  (∀ ts a ts', pSum f ts = some (a, ts') → ts'.length < ts.length) ∧
  (∀ ts as ts', pArgs f ts = some (as, ts') → ts'.length < ts.length)

theorem cons_all : ∀ f, Cons f := by
  intro f
  induction f with
  | zero => refine ⟨?_, ?_, ?_, ?_, ?_, ?_⟩ <;> intros <;> rename_i h <;> cases h
  | succ f ih =>
    obtain ⟨hA, hPL, hP, hSL, hS, hAr⟩ := ih
    refine ⟨?_, ?_, ?_, ?_, ?_, ?_⟩
    · intro ts a ts' h
      rw [pAtom_succ] at h
      split at h
      · simp at h; obtain ⟨_, e⟩ := h; subst e; simp
      · simp at h; obtain ⟨_, e⟩ := h; subst e; simp
      · split at h
        · rename_i e ts2 heq
          simp at h; obtain ⟨_, e'⟩ := h; subst e'
          have := hS _ _ _ heq
          simp only [List.length_cons] at this ⊢; omega
        · cases h
      · split at h
        · rename_i as ts2 heq
          simp at h; obtain ⟨_, e'⟩ := h; subst e'
          have := hAr _ _ _ heq
          simp only [List.length_cons] at this ⊢; omega
        · cases h
      · cases h
    · intro acc ts a ts' h
      rw [pProdLoop_succ] at h
      split at h
      · split at h
        · rename_i b ts2 heq
          have h1 := hA _ _ _ heq
          have h2 := hPL _ _ _ _ h
          simp only [List.length_cons]; omega
        · cases h
      · split at h
        · rename_i b ts2 heq
          have h1 := hA _ _ _ heq
          have h2 := hPL _ _ _ _ h
          simp only [List.length_cons]; omega
        · cases h
      · simp at h; obtain ⟨_, e⟩ := h; subst e; exact Nat.le_refl _
    · intro ts a ts' h
      rw [pProd_succ] at h
      split at h
      · rename_i b ts2 heq
        have h1 := hA _ _ _ heq
        have h2 := hPL _ _ _ _ h
        omega
      · cases h
    · intro acc ts a ts' h
      rw [pSumLoop_succ] at h
      split at h
      · split at h
        · rename_i b ts2 heq
          have h1 := hP _ _ _ heq
          have h2 := hSL _ _ _ _ h
          simp only [List.length_cons]; omega
        · cases h
      · split at h
        · rename_i b ts2 heq
          have h1 := hP _ _ _ heq
          have h2 := hSL _ _ _ _ h
          simp only [List.length_cons]; omega
        · cases h
      · simp at h; obtain ⟨_, e⟩ := h; subst e; exact Nat.le_refl _
    · intro ts a ts' h
      rw [pSum_succ] at h
      split at h
      · rename_i b ts2 heq
        have h1 := hP _ _ _ heq
        have h2 := hSL _ _ _ _ h
        omega
      · cases h
    · intro ts as ts' h
      rw [pArgs_succ] at h
      split at h
      · rename_i a ts2 heq
        split at h
        · rename_i as2 ts3 heq2
          simp at h; obtain ⟨_, e⟩ := h; subst e
          have h1 := hS _ _ _ heq
          have h2 := hAr _ _ _ heq2
          simp only [List.length_cons] at h1; omega
        · cases h
      · rename_i a ts2 _ heq
        simp at h; obtain ⟨_, e⟩ := h; subst e
        exact hS _ _ _ heq
      · cases h

def Bnd (f : Nat) : Prop :=
  (∀ ts r, pAtom f ts = some r → pAtom (4 * ts.length + 1) ts = some r) ∧
  (∀ acc ts r, pProdLoop f acc ts = some r → pProdLoop (4 * ts.length + 1) acc ts = some r) ∧
  (∀ ts r, pProd f ts = some r → pProd (4 * ts.length + 2) ts = some r) ∧
  (∀ acc ts r, pSumLoop f acc ts = some r → pSumLoop (4 * ts.length + 1) acc ts = some r) ∧
  (∀ ts r, pSum f ts = some r → pSum (4 * ts.length + 3) ts = some r) ∧
  (∀ ts r, pArgs f ts = some r → pArgs (4 * ts.length + 4) ts = some r)

theorem bnd_all : ∀ f, Bnd f := by
  intro f
  induction f with
  | zero => refine ⟨?_, ?_, ?_, ?_, ?_, ?_⟩ <;> intros <;> rename_i h <;> cases h
  | succ f ih =>
    obtain ⟨hA, hPL, hP, hSL, hS, hAr⟩ := ih
    obtain ⟨cA, cPL, cP, cSL, cS, cAr⟩ := cons_all f
    refine ⟨?_, ?_, ?_, ?_, ?_, ?_⟩
    · intro ts r h
      rw [pAtom_succ] at h
      rw [pAtom_succ]
      split at h
      · exact h
      · exact h
      · rename_i ts1
        split at h
        · rename_i e ts2 heq
          have := (mono_le (f := 4 * ts1.length + 3) (g := 4 * (Tok.lp :: ts1).length)
            (by simp only [List.length_cons]; omega)).2.2.2.2.1 _ _ (hS _ _ heq)
          simp only [this]; exact h
        · cases h
      · rename_i nm ts1
        split at h
        · rename_i as ts2 heq
          have := (mono_le (f := 4 * ts1.length + 4) (g := 4 * (Tok.fn nm :: ts1).length)
            (by simp only [List.length_cons]; omega)).2.2.2.2.2 _ _ (hAr _ _ heq)
          simp only [this]; exact h
        · cases h
      · cases h
    · intro acc ts r h
      rw [pProdLoop_succ] at h
      rw [pProdLoop_succ]
      split at h
      · rename_i ts1
        split at h
        · rename_i b ts2 heq
          have l1 := cA _ _ _ heq
          have m1 := (mono_le (f := 4 * ts1.length + 1) (g := 4 * (Tok.op Op.mul :: ts1).length)
            (by simp only [List.length_cons]; omega)).1 _ _ (hA _ _ heq)
          have m2 := (mono_le (f := 4 * ts2.length + 1) (g := 4 * (Tok.op Op.mul :: ts1).length)
            (by simp only [List.length_cons]; omega)).2.1 _ _ _ (hPL _ _ _ h)
          simp only [m1]; exact m2
        · cases h
      · rename_i ts1
        split at h
        · rename_i b ts2 heq
          have l1 := cA _ _ _ heq
          have m1 := (mono_le (f := 4 * ts1.length + 1) (g := 4 * (Tok.op Op.div :: ts1).length)
            (by simp only [List.length_cons]; omega)).1 _ _ (hA _ _ heq)
          have m2 := (mono_le (f := 4 * ts2.length + 1) (g := 4 * (Tok.op Op.div :: ts1).length)
            (by simp only [List.length_cons]; omega)).2.1 _ _ _ (hPL _ _ _ h)
          simp only [m1]; exact m2
        · cases h
      · exact h
    · intro ts r h
      rw [pProd_succ] at h
      have e : 4 * ts.length + 2 = (4 * ts.length + 1) + 1 := by omega
      rw [e, pProd_succ]
      split at h
      · rename_i b ts2 heq
        have l1 := cA _ _ _ heq
        have m2 := (mono_le (f := 4 * ts2.length + 1) (g := 4 * ts.length + 1) (by omega)).2.1 _ _ _ (hPL _ _ _ h)
        simp only [hA _ _ heq]; exact m2
      · cases h
    · intro acc ts r h
      rw [pSumLoop_succ] at h
      rw [pSumLoop_succ]
      split at h
      · rename_i ts1
        split at h
        · rename_i b ts2 heq
          have l1 := cP _ _ _ heq
          have m1 := (mono_le (f := 4 * ts1.length + 2) (g := 4 * (Tok.op Op.plus :: ts1).length)
            (by simp only [List.length_cons]; omega)).2.2.1 _ _ (hP _ _ heq)
          have m2 := (mono_le (f := 4 * ts2.length + 1) (g := 4 * (Tok.op Op.plus :: ts1).length)
            (by simp only [List.length_cons]; omega)).2.2.2.1 _ _ _ (hSL _ _ _ h)
          simp only [m1]; exact m2
        · cases h
      · rename_i ts1
        split at h
        · rename_i b ts2 heq
          have l1 := cP _ _ _ heq
          have m1 := (mono_le (f := 4 * ts1.length + 2) (g := 4 * (Tok.op Op.minus :: ts1).length)
            (by simp only [List.length_cons]; omega)).2.2.1 _ _ (hP _ _ heq)
          have m2 := (mono_le (f := 4 * ts2.length + 1) (g := 4 * (Tok.op Op.minus :: ts1).length)
            (by simp only [List.length_cons]; omega)).2.2.2.1 _ _ _ (hSL _ _ _ h)
          simp only [m1]; exact m2
        · cases h
      · exact h
    · intro ts r h
      rw [pSum_succ] at h
      have e : 4 * ts.length + 3 = (4 * ts.length + 2) + 1 := by omega
      rw [e, pSum_succ]
      split at h
      · rename_i b ts2 heq
        have l1 := cP _ _ _ heq
        have m2 := (mono_le (f := 4 * ts2.length + 1) (g := 4 * ts.length + 2) (by omega)).2.2.2.1 _ _ _ (hSL _ _ _ h)
        simp only [hP _ _ heq]; exact m2
      · cases h
    · intro ts r h
      rw [pArgs_succ] at h
      have e : 4 * ts.length + 4 = (4 * ts.length + 3) + 1 := by omega
      rw [e, pArgs_succ]
      split at h
      · rename_i a ts2 heq
        have l1 := cS _ _ _ heq
        simp only [hS _ _ heq]
        split at h
        · rename_i as2 ts3 heq2
          have m2 := (mono_le (f := 4 * ts2.length + 4) (g := 4 * ts.length + 3)
            (by simp only [List.length_cons] at l1; omega)).2.2.2.2.2 _ _ (hAr _ _ heq2)
          simp only [m2]; exact h
        · cases h
      · rename_i a ts2 hnc heq
        simp only [hS _ _ heq]
        exact h
      · cases h

/-- a token list that is read with some fuel is read by `parseToks` -/
theorem parseToks_of_fuel (ts : List Tok) (f : Nat) (a : CalcArg) (h : pSum f ts = some (a, [])) :
    parseToks ts = some a := by
  have := (bnd_all f).2.2.2.2.1 _ _ h
  unfold parseToks parseFuel
  rw [this]

end Grass.Calc
