import Grass.Eval
import GrassProofs.Lemmas.EvalScope
/-
  Unfolding lemmas for the reference evaluator's monad and for the statements / calls whose
  semantics the C03 growth theorems describe.
-/
namespace Grass.Eval

/-- What entering a nested block does (`inScope`): a fresh empty frame on top of the chain; the
    semi-global flag survives only through control flow (`semi = true`), never through a style
    rule, a mixin, a function or a content block (`semi = false`). -/
theorem inScope_eq {α : Type} (ctx : Ctx) (semi : Bool) (body : Ctx → M α) (st : St) :
    inScope ctx semi body st =
      body { ctx with env := st.heap.size :: ctx.env, semi := semi && ctx.semi }
        { st with heap := st.heap.push {} } := rfl

/-- The `$n: e` statement in terms of the environment operations. -/
theorem var_stmt_eq (r : Rec) (ctx : Ctx) (n : String) (e : Expr) (glob : Bool) (st : St) :
    stmtF r ctx (.var n e glob false) st =
      match r.expr ctx e st with
      | .ok v st1 =>
        match assignTarget st1.heap ctx.env n glob ctx.semi with
        | some fid => .ok none { st1 with heap := setV st1.heap fid n v }
        | none => .err .unsupported st1
      | .err er st1 => .err er st1
      | .oof => .oof := by
  unfold stmtF
  show M.bind getSt _ st = _
  simp only [M.bind, getSt, Bool.false_and, Bool.false_eq_true, if_false]
  show M.bind (r.expr ctx e) _ st = _
  unfold M.bind
  cases r.expr ctx e st with
  | ok v st1 =>
    simp only []
    show M.bind getSt _ st1 = _
    simp only [M.bind, getSt]
    cases assignTarget st1.heap ctx.env n glob ctx.semi with
    | some fid => rfl
    | none => rfl
  | err er st1 => rfl
  | oof => rfl

theorem assignTarget_global (h : Array Frame) (env : List Nat) (n : String) (semi : Bool) :
    assignTarget h env n true semi = env.getLast? := by
  simp [assignTarget]

theorem bind_ok {α β : Type} (x : M α) (f : α → M β) (st st1 : St) (a : α) (h : x st = .ok a st1) :
    (x >>= f) st = f a st1 := by
  show M.bind x f st = _
  unfold M.bind; rw [h]

theorem bind_err {α β : Type} (x : M α) (f : α → M β) (st st1 : St) (e : Err) (h : x st = .err e st1) :
    (x >>= f) st = .err e st1 := by
  show M.bind x f st = _
  unfold M.bind; rw [h]

theorem bind_oof {α β : Type} (x : M α) (f : α → M β) (st : St) (h : x st = .oof) :
    (x >>= f) st = .oof := by
  show M.bind x f st = _
  unfold M.bind; rw [h]

theorem evalArgs_nil (r : Rec) (ctx : Ctx) (st : St) :
    evalArgs r ctx ⟨[], [], none⟩ st = .ok { pos := [], named := [] } st := rfl

/-- Invoking a callable without parameters and without arguments: a fresh empty frame, then the body. -/
theorem invoke_nil {α : Type} (r : Rec) (dev : Dev) (mk : Nat → Ctx) (body : Ctx → M α) (st : St) :
    invoke r dev mk ⟨[], none⟩ { pos := [], named := [] } body st =
      (body (mk st.heap.size) >>= fun out => pure out) { st with heap := st.heap.push {} } := rfl

theorem call_eq (r : Rec) (ctx : Ctx) (f : String) (c : Callable) (st : St)
    (hfn : lookupFn st.heap ctx.env f = some c) :
    exprF r ctx (.call f [] [] none) st =
      invoke r ctx.dev (fun fid => { dev := ctx.dev, env := fid :: c.env, semi := false, content := none, sel := ctx.sel, inFn := true })
        c.params { pos := [], named := [] } (fun ctx' => do
          match ← r.block ctx' c.body with
          | some v => pure v
          | none => fail .noReturn) st := by
  unfold exprF
  show (evalArgs r ctx ⟨[], [], none⟩ >>= _) st = _
  rw [bind_ok _ _ _ _ _ (evalArgs_nil r ctx st)]
  show (getSt >>= _) st = _
  rw [bind_ok getSt _ st st st rfl]
  simp only [hfn]
  rfl

theorem tick_ok (st : St) (hw : st.work ≠ 0) : tick st = .ok () { st with work := st.work - 1 } := by
  unfold tick
  have : (st.work == 0) = false := by simpa using hw
  simp [this]

/-- The fresh frames a call pushes hide nothing: a lookup through `fid :: env` (and through
    `fid' :: env` with two fresh frames) in the extended heap is the lookup through `env`. -/
theorem lookupVar_fresh_child (h : Array Frame) (env : List Nat) (x : String) (hv : ∀ g ∈ env, g < h.size) :
    lookupVar (h.push {}) (h.size :: env) x = lookupVar h env x ∧
    lookupVar ((h.push {}).push {}) ((h.size + 1) :: env) x = lookupVar h env x := by
  constructor
  · rw [lookupVar_cons, getV_push]; simp only [if_true]
    exact lookupVar_push h env x hv
  · have hv' : ∀ g ∈ env, g < (h.push ({} : Frame)).size := fun g hg => by simp; have := hv g hg; omega
    have hs : h.size + 1 = (h.push ({} : Frame)).size := by simp
    rw [hs, lookupVar_cons, getV_push]; simp only [if_true]
    rw [lookupVar_push _ env x hv', lookupVar_push h env x hv]

theorem intOf_int (a : Int) (st : St) : intOf (.num (a : Rat)) st = .ok a st := by
  unfold intOf
  simp
  rfl

end Grass.Eval
