import Grass.Value
import GrassProofs.Lemmas.ValueEq
/-
  Helper lemmas for C09: the association-list operations of `SassMap` seen through `toList`.
-/
set_option linter.unusedSimpArgs false
namespace Grass.Value

theorem keys_toList : ∀ (m : VPairs), (keys m).toList = m.toList.map (·.1)
  | .nil => rfl
  | .cons k v t => by simp [keys, VList.toList, VPairs.toList, keys_toList t]

theorem values_toList : ∀ (m : VPairs), (values m).toList = m.toList.map (·.2)
  | .nil => rfl
  | .cons k v t => by simp [values, VList.toList, VPairs.toList, values_toList t]

theorem get_eq_find (sw : Sw) (key : Value) : ∀ (m : VPairs),
    get sw m key = (m.toList.find? (fun e => veq sw e.1 key)).map (·.2)
  | .nil => rfl
  | .cons k v t => by
    simp only [get, VPairs.toList, List.find?_cons]
    cases h : veq sw k key <;> simp [get_eq_find sw key t]

theorem contains_eq_any (sw : Sw) (key : Value) (m : VPairs) :
    contains sw m key = m.toList.any (fun e => veq sw e.1 key) := by
  unfold contains
  cases h : m.toList.any (fun e => veq sw e.1 key)
  · rw [any_false_iff]; simpa using h
  · rw [any_iff]; simpa using h

theorem get_isSome_eq_contains (sw : Sw) (key : Value) (m : VPairs) :
    (get sw m key).isSome = contains sw m key := by
  rw [get_eq_find, contains_eq_any]
  simp [List.find?_isSome]
  cases h : m.toList.any (fun e => veq sw e.1 key)
  · simp only [List.any_eq_false] at h
    simpa using h
  · simp only [List.any_eq_true] at h
    simpa using h

theorem insert_absent (sw : Sw) (key val : Value) : ∀ (m : VPairs), contains sw m key = false →
    (insert sw m key val).toList = m.toList ++ [(key, val)]
  | .nil, _ => by simp [insert, VPairs.toList]
  | .cons k v t, h => by
    simp only [contains, VPairs.any, Bool.or_eq_false_iff] at h
    simp only [insert, h.1, Bool.false_eq_true, if_false, VPairs.toList, List.cons_append]
    rw [insert_absent sw key val t (by simpa [contains] using h.2)]

theorem insert_keys_present (sw : Sw) (key val : Value) : ∀ (m : VPairs),
    contains sw m key = true → (keys (insert sw m key val)) = keys m
  | .nil, h => by simp [contains, VPairs.any] at h
  | .cons k v t, h => by
    simp only [contains, VPairs.any, Bool.or_eq_true] at h
    simp only [insert]
    cases hk : veq sw k key
    · simp only [Bool.false_eq_true, if_false, keys]
      rw [insert_keys_present sw key val t (by simpa [contains, hk] using h)]
    · simp [keys]

theorem remove_toList (sw : Sw) (key : Value) : ∀ (m : VPairs),
    (remove sw m key).toList = m.toList.filter (fun e => keeps sw e.1 key)
  | .nil => rfl
  | .cons k v t => by
    simp only [remove, VPairs.toList, List.filter_cons]
    cases h : keeps sw k key <;> simp [VPairs.toList, remove_toList sw key t]

theorem distinctKeys_iff (sw : Sw) : ∀ (m : VPairs),
    distinctKeys sw m = true ↔ (m.toList.map (·.1)).Pairwise (fun a b => veq sw a b = false)
  | .nil => by simp [distinctKeys, VPairs.toList]
  | .cons k v t => by
    rw [distinctKeys_iff_cons, distinctKeys_iff sw t]
    simp [VPairs.toList, List.pairwise_cons]

theorem contains_eq_keys (sw : Sw) (key : Value) (m : VPairs) :
    contains sw m key = (keys m).toList.any (fun k => veq sw k key) := by
  rw [contains_eq_any, keys_toList, List.any_map]; rfl

theorem contains_congr_keys (sw : Sw) (key : Value) (m m' : VPairs) (h : keys m = keys m') :
    contains sw m key = contains sw m' key := by
  rw [contains_eq_keys, contains_eq_keys, h]

theorem insert_keys_absent (sw : Sw) (key val : Value) (m : VPairs) (h : contains sw m key = false) :
    (keys (insert sw m key val)).toList = (keys m).toList ++ [key] := by
  rw [keys_toList, insert_absent sw key val m h, keys_toList]; simp

theorem contains_insert_absent (sw : Sw) (key val k' : Value) (m : VPairs)
    (h : contains sw m key = false) :
    contains sw (insert sw m key val) k' = (contains sw m k' || veq sw key k') := by
  rw [contains_eq_keys, insert_keys_absent sw key val m h, contains_eq_keys]
  simp [List.any_append]

theorem distinct_insert (sw : Sw) (key val : Value) (m : VPairs) (h : distinctKeys sw m = true) :
    distinctKeys sw (insert sw m key val) = true := by
  cases hc : contains sw m key
  · rw [distinctKeys_iff] at h ⊢
    rw [← keys_toList, insert_keys_absent sw key val m hc, List.pairwise_append]
    rw [← keys_toList] at h
    refine ⟨h, by simp, ?_⟩
    intro a ha b hb
    simp only [List.mem_singleton] at hb
    subst hb
    rw [contains_eq_keys, List.any_eq_false] at hc
    simpa using hc a ha
  · rw [distinctKeys_iff] at h ⊢
    rw [← keys_toList] at h ⊢
    rw [insert_keys_present sw key val m hc]; exact h

theorem distinct_merge (sw : Sw) : ∀ (b a : VPairs), distinctKeys sw a = true →
    distinctKeys sw (merge sw a b) = true
  | .nil, a, h => by simpa [merge] using h
  | .cons k v t, a, h => by
    simp only [merge]
    exact distinct_merge sw t _ (distinct_insert sw k v a h)

theorem distinct_remove (sw : Sw) (key : Value) (m : VPairs) (h : distinctKeys sw m = true) :
    distinctKeys sw (remove sw m key) = true := by
  rw [distinctKeys_iff] at h ⊢
  rw [remove_toList]
  exact List.Pairwise.sublist (List.Sublist.map _ List.filter_sublist) h

theorem keys_merge (sw : Sw) : ∀ (b a : VPairs), distinctKeys sw b = true →
    (keys (merge sw a b)).toList =
      (keys a).toList ++ (keys b).toList.filter (fun k => !contains sw a k)
  | .nil, a, _ => by simp [merge, keys, VList.toList]
  | .cons k v t, a, h => by
    rw [distinctKeys_iff_cons] at h
    simp only [merge]
    rw [keys_merge sw t (insert sw a k v) h.2]
    simp only [keys, VList.toList, List.filter_cons]
    cases hc : contains sw a k
    · rw [insert_keys_absent sw k v a hc]
      simp only [Bool.not_false, if_true, List.append_assoc, List.singleton_append]
      congr 2
      apply List.filter_congr
      intro k' hk'
      rw [contains_insert_absent sw k v k' a hc]
      rw [keys_toList] at hk'
      obtain ⟨e, he, rfl⟩ := List.mem_map.1 hk'
      rw [h.1 e he]; simp
    · rw [insert_keys_present sw k v a hc]
      simp only [Bool.not_true, Bool.false_eq_true, if_false]
      congr 1
      apply List.filter_congr
      intro k' _
      rw [contains_congr_keys sw k' _ a (insert_keys_present sw k v a hc)]

/-- `visit_map`: with pairwise unequal keys already collected, the literal is rejected exactly
    when some later key equals an earlier one, and otherwise the entries are kept in order. -/
theorem literalFrom_spec (sw : Sw) : ∀ (rest : List (Value × Value)) (acc : VPairs),
    distinctKeys sw acc = true →
    (literalFrom sw acc rest = none ↔
      ¬ ((acc.toList ++ rest).map (·.1)).Pairwise (fun a b => veq sw a b = false)) ∧
    (∀ m, literalFrom sw acc rest = some m → m.toList = acc.toList ++ rest)
  | [], acc, h => by
    rw [distinctKeys_iff] at h
    simp [literalFrom, h]
  | (k, v) :: rest, acc, h => by
    simp only [literalFrom]
    cases hg : get sw acc k with
    | some x =>
      have hc : contains sw acc k = true := by rw [← get_isSome_eq_contains, hg]; rfl
      rw [contains_eq_any, List.any_eq_true] at hc
      obtain ⟨e, he, hek⟩ := hc
      refine ⟨⟨fun _ => ?_, fun _ => rfl⟩, by simp⟩
      intro hp
      rw [List.map_append, List.pairwise_append] at hp
      have := hp.2.2 e.1 (List.mem_map.2 ⟨e, he, rfl⟩) k (by simp)
      rw [hek] at this; exact Bool.noConfusion this
    | none =>
      have hc : contains sw acc k = false := by rw [← get_isSome_eq_contains, hg]; rfl
      have ih := literalFrom_spec sw rest (insert sw acc k v) (distinct_insert sw k v acc h)
      rw [insert_absent sw k v acc hc] at ih
      simpa [List.append_assoc] using ih

end Grass.Value
