import Grass.CssTree
/-
  Helper lemmas for C04 (`finish` on the trees of the style-rule fragment).  Property theorems live in GrassProofs/C04.lean.
-/
namespace Grass.CssTree


/-- body of a finished rule: declaration nodes appended one by one -/
def snocDecls : CssList → List (String × String) → CssList
  | b, [] => b
  | b, (n, v) :: ds => snocDecls (b.snoc (.mk (.decl n v) .nil)) ds

theorem takeInto_decl (s : FState) (c i : Nat) (n v : String) (k : Kind) (body : CssList)
    (hk : ∀ a b, k ≠ .decl a b)
    (hc : s[c]? = some (some (.mk (.decl n v) .nil)))
    (hi : s[i]? = some (some (.mk k body))) :
    takeInto s c i = some ((s.set c none).set i (some (.mk k (body.snoc (.mk (.decl n v) .nil))))) := by
  unfold takeInto
  rw [hc]
  simp only
  rw [hi]
  cases k with
  | decl a b => exact absurd rfl (hk a b)
  | rule sel => simp [Css.push]
  | media q => simp [Css.push]
  | supports q => simp [Css.push]
  | unknown a b => simp [Css.push]

/-- inner loop of `apply_children` on a node whose children are all declaration leaves -/
theorem foldlM_leaves (t : Tree) (f i : Nat) (k : Kind) (hk : ∀ a b, k ≠ .decl a b) (dv : Nat → String × String) :
    ∀ (cs : List Nat) (s : FState) (body : CssList),
      (∀ c ∈ cs, hasChildren t c = false) →
      s[i]? = some (some (.mk k body)) →
      (∀ c ∈ cs, s[c]? = some (some (.mk (.decl (dv c).1 (dv c).2) .nil))) →
      (∀ c ∈ cs, c ≠ i) → cs.Nodup →
      ∃ s', cs.foldlM (fun s c =>
              match (if hasChildren t c then applyChildren t f c s else some s) with
              | none => none
              | some s1 => takeInto s1 c i) s = some s' ∧
        s'.length = s.length ∧
        s'[i]? = some (some (.mk k (snocDecls body (cs.map dv)))) ∧
        (∀ c ∈ cs, s'[c]? = some none) ∧
        (∀ j, j ≠ i → j ∉ cs → s'[j]? = s[j]?)
  | [], s, body, _, hi, _, _, _ => ⟨s, by simp [snocDecls, hi]⟩
  | c :: cs, s, body, hleaf, hi, hc, hne, hnd => by
    have hc0 := hc c (by simp)
    have hne0 := hne c (by simp)
    have ht := takeInto_decl s c i (dv c).1 (dv c).2 k body hk hc0 hi
    have hilt : i < s.length := by
      rcases Nat.lt_or_ge i s.length with h | h
      · exact h
      · rw [List.getElem?_eq_none h] at hi; cases hi
    have hclt : c < s.length := by
      rcases Nat.lt_or_ge c s.length with h | h
      · exact h
      · rw [List.getElem?_eq_none h] at hc0; cases hc0
    simp only [List.nodup_cons] at hnd
    let s1 := (s.set c none).set i (some (.mk k (body.snoc (.mk (.decl (dv c).1 (dv c).2) .nil))))
    have hs1i : s1[i]? = some (some (.mk k (body.snoc (.mk (.decl (dv c).1 (dv c).2) .nil)))) := by
      simp [s1, hilt]
    have hs1c : ∀ c' ∈ cs, s1[c']? = some (some (.mk (.decl (dv c').1 (dv c').2) .nil)) := by
      intro c' hc'
      have h1 : c' ≠ i := hne c' (by simp [hc'])
      have h2 : c' ≠ c := fun h => hnd.1 (h ▸ hc')
      simp only [s1, List.getElem?_set]
      rw [if_neg (Ne.symm h1), if_neg (Ne.symm h2)]
      exact hc c' (by simp [hc'])
    obtain ⟨s', hf, hl, hi', hcs', hoth⟩ := foldlM_leaves t f i k hk dv cs s1 _
      (fun c' h => hleaf c' (by simp [h])) hs1i hs1c (fun c' h => hne c' (by simp [h])) hnd.2
    refine ⟨s', ?_, ?_, ?_, ?_, ?_⟩
    · simp only [List.foldlM_cons, hleaf c (by simp), Bool.false_eq_true, if_false, ht]
      exact hf
    · simp [hl, s1]
    · simpa [snocDecls] using hi'
    · intro c' hc'
      simp only [List.mem_cons] at hc'
      rcases hc' with rfl | hc'
      · rw [hoth c' hne0 hnd.1]
        simp only [s1, List.getElem?_set]
        rw [if_neg (Ne.symm hne0)]
        simp [hclt]
      · exact hcs' c' hc'
    · intro j hj1 hj2
      simp only [List.mem_cons, not_or] at hj2
      rw [hoth j hj1 hj2.2]
      simp only [s1, List.getElem?_set]
      rw [if_neg (Ne.symm hj1), if_neg (Ne.symm hj2.1)]


/-! ### trees of the style-rule fragment: ROOT → rules → declarations -/

structure Wf (t : Tree) : Prop where
  root : kindAt t 0 = none
  pos : 0 < t.length
  node : ∀ i r, 0 < i → t[i]? = some r →
    (∃ sel, r.stmt = some (.rule sel) ∧ r.parent = some 0 ∧
       (∀ c ∈ r.children, i < c ∧ ∃ n v, t[c]? = some { stmt := some (.decl n v), parent := some i, children := [] }) ∧
       r.children.Pairwise (· < ·))
    ∨ (∃ n v p, r = { stmt := some (.decl n v), parent := some p, children := [] } ∧ 0 < p ∧ p < i ∧
         ∃ rp, t[p]? = some rp ∧ i ∈ rp.children)

/-- name and value of the declaration node `c` -/
def dv (t : Tree) (c : Nat) : String × String :=
  match kindAt t c with
  | some (.decl n v) => (n, v)
  | _ => ("", "")

/-- content of `stmts[j]` once every node with index `< i` has been applied -/
def cell (t : Tree) (i j : Nat) (r : NodeRec) : Option Css :=
  match r.stmt with
  | none => none
  | some (.rule sel) => some (.mk (.rule sel) (if j < i then snocDecls .nil (r.children.map (dv t)) else .nil))
  | some (.decl n v) =>
    if (match r.parent with | some p => decide (p < i) | none => false) then none else some (.mk (.decl n v) .nil)
  | some k => some (.mk k .nil)

def Inv (t : Tree) (i : Nat) (s : FState) : Prop :=
  s.length = t.length ∧ ∀ j r, t[j]? = some r → s[j]? = some (cell t i j r)

theorem nodup_of_pairwise_lt (l : List Nat) (h : l.Pairwise (· < ·)) : l.Nodup := by
  rw [List.nodup_iff_pairwise_ne]
  exact h.imp (fun h => Nat.ne_of_lt h)

theorem dv_of (t : Tree) (c : Nat) (n v : String) (p : Option Nat) (cs : List Nat)
    (h : t[c]? = some { stmt := some (.decl n v), parent := p, children := cs }) : dv t c = (n, v) := by
  simp [dv, kindAt, h]

theorem finish_step (t : Tree) (wf : Wf t) (i : Nat) (s : FState) (hi0 : 0 < i) (hi : i < t.length)
    (inv : Inv t i s) :
    ∃ s', finishLoop t [i] s = some s' ∧ Inv t (i + 1) s' := by
  obtain ⟨r, hr⟩ : ∃ r, t[i]? = some r := ⟨t[i], by simp [hi]⟩
  have hsi := inv.2 i r hr
  rcases wf.node i r hi0 hr with ⟨sel, hstmt, hpar, hch, hpw⟩ | ⟨n, v, p, hrec, hp0, hpi, rp, hrp, hmem⟩
  · -- a style rule
    by_cases hcs : r.children = []
    · -- without children: skipped
      have hhc : hasChildren t i = false := by simp [hasChildren, childrenOf, hr, hcs]
      refine ⟨s, by simp [finishLoop, hhc], inv.1, ?_⟩
      intro j r' hr'
      rw [inv.2 j r' hr']
      congr 1
      unfold cell
      cases hst : r'.stmt with
      | none => rfl
      | some k =>
        cases k with
        | rule sel' =>
          simp only
          by_cases hji : j = i
          · subst hji
            have : r' = r := by rw [hr] at hr'; injection hr' with h; exact h.symm
            subst this
            simp [hcs, snocDecls]
          · have : (j < i + 1) = (j < i) := by
              apply propext; constructor <;> intro h <;> omega
            simp only [this]
        | decl n v =>
          simp only
          cases hp : r'.parent with
          | none => rfl
          | some p =>
            simp only
            by_cases hpi : p = i
            · subst hpi
              exfalso
              have hj0 : 0 < j := by
                rcases Nat.eq_zero_or_pos j with h | h
                · subst h; have := wf.root; simp [kindAt, hr', hst] at this
                · exact h
              rcases wf.node j r' hj0 hr' with ⟨sel', hs', _⟩ | ⟨n', v', p', hrec', _, _, rp', hrp', hmem'⟩
              · rw [hst] at hs'; cases hs'
              · rw [hrec'] at hp; simp at hp; subst hp
                rw [hr] at hrp'; injection hrp' with h; subst h
                rw [hcs] at hmem'; cases hmem'
            · have : decide (p < i + 1) = decide (p < i) := by
                apply decide_eq_decide.mpr; constructor <;> intro h <;> omega
              simp only [this]
        | media q => rfl
        | supports q => rfl
        | unknown a b => rfl
    · -- with children: all of them are declaration leaves and are taken in order
      have hhc : hasChildren t i = true := by
        simp [hasChildren, childrenOf, hr]
        cases hh : r.children with
        | nil => exact absurd hh hcs
        | cons a as => simp
      have hsi' : s[i]? = some (some (.mk (.rule sel) .nil)) := by
        rw [hsi]; simp [cell, hstmt]
      have hleaf : ∀ c ∈ r.children, hasChildren t c = false := by
        intro c hc
        obtain ⟨_, n, v, hcrec⟩ := hch c hc
        simp [hasChildren, childrenOf, hcrec]
      have hsc : ∀ c ∈ r.children, s[c]? = some (some (.mk (.decl (dv t c).1 (dv t c).2) .nil)) := by
        intro c hc
        obtain ⟨_, n, v, hcrec⟩ := hch c hc
        rw [inv.2 c _ hcrec, dv_of t c n v _ _ hcrec]
        simp [cell]
      have hne : ∀ c ∈ r.children, c ≠ i := fun c hc => Nat.ne_of_gt (hch c hc).1
      obtain ⟨s', hf, hl, hi', hcs', hoth⟩ := foldlM_leaves t (t.length - 1) i (.rule sel) (by intro a b h; cases h)
        (dv t) r.children s .nil hleaf hsi' hsc hne (nodup_of_pairwise_lt _ hpw)
      have hfuel : t.length = (t.length - 1) + 1 := by have := wf.pos; omega
      refine ⟨s', ?_, ?_, ?_⟩
      · have hnn : ((s[i]?).join).isNone = false := by rw [hsi']; rfl
        have hco : childrenOf t i = r.children := by simp [childrenOf, hr]
        have happ : applyChildren t t.length i s = some s' := by
          rw [hfuel, applyChildren, hco]
          exact hf
        simp only [finishLoop, hnn, hhc, Bool.not_true, Bool.or_self, Bool.false_eq_true, if_false, happ]
      · rw [hl]; exact inv.1
      · intro j r' hr'
        by_cases hji : j = i
        · subst hji
          have : r' = r := by rw [hr] at hr'; injection hr' with h; exact h.symm
          subst this
          rw [hi']; simp [cell, hstmt]
        · by_cases hjc : j ∈ r.children
          · rw [hcs' j hjc]
            obtain ⟨_, n, v, hcrec⟩ := hch j hjc
            rw [hcrec] at hr'; injection hr' with h; subst h
            simp [cell]
          · rw [hoth j hji hjc, inv.2 j r' hr']
            congr 1
            unfold cell
            cases hst : r'.stmt with
            | none => rfl
            | some k =>
              cases k with
              | rule sel' =>
                simp only
                have : (j < i + 1) = (j < i) := by
                  apply propext; constructor <;> intro h <;> omega
                simp only [this]
              | decl n v =>
                simp only
                cases hp : r'.parent with
                | none => rfl
                | some p =>
                  simp only
                  by_cases hpi : p = i
                  · subst hpi
                    exfalso
                    have hj0 : 0 < j := by
                      rcases Nat.eq_zero_or_pos j with h | h
                      · subst h; have := wf.root; simp [kindAt, hr', hst] at this
                      · exact h
                    rcases wf.node j r' hj0 hr' with ⟨sel', hs', _⟩ | ⟨n', v', p', hrec', _, _, rp', hrp', hmem'⟩
                    · rw [hst] at hs'; cases hs'
                    · rw [hrec'] at hp; simp at hp; subst hp
                      rw [hr] at hrp'; injection hrp' with h; subst h
                      exact hjc hmem'
                  · have : decide (p < i + 1) = decide (p < i) := by
                      apply decide_eq_decide.mpr; constructor <;> intro h <;> omega
                    simp only [this]
              | media q => rfl
              | supports q => rfl
              | unknown a b => rfl
  · -- a declaration: no children, skipped
    have hhc : hasChildren t i = false := by simp [hasChildren, childrenOf, hr, hrec]
    refine ⟨s, by simp [finishLoop, hhc], inv.1, ?_⟩
    intro j r' hr'
    rw [inv.2 j r' hr']
    congr 1
    unfold cell
    cases hst : r'.stmt with
    | none => rfl
    | some k =>
      cases k with
      | rule sel' =>
        simp only
        by_cases hji : j = i
        · subst hji
          rw [hr] at hr'; injection hr' with h; subst h
          rw [hrec] at hst; cases hst
        · have : (j < i + 1) = (j < i) := by
            apply propext; constructor <;> intro h <;> omega
          simp only [this]
      | decl n' v' =>
        simp only
        cases hp' : r'.parent with
        | none => rfl
        | some p' =>
          simp only
          by_cases hpi' : p' = i
          · subst hpi'
            exfalso
            have hj0 : 0 < j := by
              rcases Nat.eq_zero_or_pos j with h | h
              · subst h; have := wf.root; simp [kindAt, hr', hst] at this
              · exact h
            rcases wf.node j r' hj0 hr' with ⟨sel', hs', _⟩ | ⟨n'', v'', p'', hrec', _, _, rp', hrp', hmem'⟩
            · rw [hst] at hs'; cases hs'
            · rw [hrec'] at hp'; simp at hp'; subst hp'
              rw [hr] at hrp'; injection hrp' with h; subst h
              rw [hrec] at hmem'; cases hmem'
          · have : decide (p' < i + 1) = decide (p' < i) := by
              apply decide_eq_decide.mpr; constructor <;> intro h <;> omega
            simp only [this]
      | media q => rfl
      | supports q => rfl
      | unknown a b => rfl


theorem filterMap_congr' {α β : Type} {f g : α → Option β} (l : List α) (h : ∀ a ∈ l, f a = g a) :
    l.filterMap f = l.filterMap g := by
  induction l with
  | nil => rfl
  | cons a as ih =>
    simp only [List.filterMap_cons, h a (by simp), ih (fun x hx => h x (by simp [hx]))]

theorem finishLoop_cons (t : Tree) (i : Nat) (is : List Nat) (s : FState) :
    finishLoop t (i :: is) s = (finishLoop t [i] s).bind (finishLoop t is) := by
  simp only [finishLoop]
  split
  · rfl
  · split <;> rfl

theorem finish_range (t : Tree) (wf : Wf t) :
    ∀ (n i : Nat) (s : FState), 0 < i → i + n ≤ t.length → Inv t i s →
      ∃ s', finishLoop t (List.range' i n) s = some s' ∧ Inv t (i + n) s'
  | 0, i, s, _, _, inv => ⟨s, by simp [finishLoop], by simpa using inv⟩
  | n + 1, i, s, hi0, hle, inv => by
    obtain ⟨s1, h1, inv1⟩ := finish_step t wf i s hi0 (by omega) inv
    obtain ⟨s2, h2, inv2⟩ := finish_range t wf n (i + 1) s1 (by omega) (by omega) inv1
    refine ⟨s2, ?_, ?_⟩
    · rw [List.range'_succ, finishLoop_cons, h1]
      exact h2
    · have : i + (n + 1) = i + 1 + n := by omega
      rw [this]; exact inv2

theorem inv_init (t : Tree) (wf : Wf t) : Inv t 1 (t.map (fun r => r.stmt.map (Css.mk · .nil))) := by
  refine ⟨by simp, ?_⟩
  intro j r hr
  simp only [List.getElem?_map, hr, Option.map_some]
  congr 1
  unfold cell
  cases hst : r.stmt with
  | none => rfl
  | some k =>
    have hj0 : 0 < j := by
      rcases Nat.eq_zero_or_pos j with h | h
      · subst h; have := wf.root; simp [kindAt, hr, hst] at this
      · exact h
    cases k with
    | rule sel =>
      have : ¬ j < 1 := by omega
      simp [this]
    | decl n v =>
      rcases wf.node j r hj0 hr with ⟨sel', hs', _⟩ | ⟨n', v', p', hrec', hp0, _, _⟩
      · rw [hst] at hs'; cases hs'
      · have hp : r.parent = some p' := by rw [hrec']
        have : ¬ p' < 1 := by omega
        simp [hp, this]
    | media q => rfl
    | supports q => rfl
    | unknown a b => rfl

/-- the rules of a fragment tree in index order, each with its declarations in child order -/
def viewEntry (t : Tree) (j : Nat) : Option (Nat × SelList × List (String × String)) :=
  match t[j]? with
  | some r => (match r.stmt with
               | some (.rule sel) => some (j, sel, r.children.map (dv t))
               | _ => none)
  | none => none

def viewI (t : Tree) : List (Nat × SelList × List (String × String)) :=
  (List.range t.length).filterMap (viewEntry t)

def entryCss (e : Nat × SelList × List (String × String)) : Css := .mk (.rule e.2.1) (snocDecls .nil e.2.2)

theorem finish_wf (t : Tree) (wf : Wf t) : finish t = some ((viewI t).map entryCss) := by
  obtain ⟨s', hf, inv⟩ := finish_range t wf (t.length - 2) 1 _ (by omega) (by have := wf.pos; omega) (inv_init t wf)
  have hidx : (List.range (t.length - 1)).drop 1 = List.range' 1 (t.length - 2) := by
    rw [List.range_eq_range', List.drop_range']
    congr 1 <;> omega
  unfold finish
  rw [hidx, hf]
  simp only [Option.map_some]
  congr 1
  -- s' is known pointwise
  have hs' : s' = (List.range t.length).map (fun j => (t[j]?).bind (cell t (1 + (t.length - 2)) j)) := by
    apply List.ext_getElem?
    intro j
    by_cases hj : j < t.length
    · have hr : t[j]? = some t[j] := by simp [hj]
      rw [inv.2 j _ hr]
      simp [List.getElem?_map, List.getElem?_range hj, hr]
    · have h1 : s'[j]? = none := by rw [List.getElem?_eq_none]; rw [inv.1]; omega
      have h2 : ((List.range t.length).map (fun j => (t[j]?).bind (cell t (1 + (t.length - 2)) j)))[j]? = none := by
        rw [List.getElem?_eq_none]; simp; omega
      rw [h1, h2]
  rw [hs', List.filterMap_map, viewI, List.map_filterMap]
  apply filterMap_congr'
  intro j hj
  have hj : j < t.length := by simpa using hj
  have hr : t[j]? = some t[j] := by simp [hj]
  simp only [Function.comp, id, hr, Option.bind_some, viewEntry]
  unfold cell
  cases hst : (t[j]).stmt with
  | none => rfl
  | some k =>
    have hj0 : 0 < j := by
      rcases Nat.eq_zero_or_pos j with h | h
      · subst h; have := wf.root; simp [kindAt, hr, hst] at this
      · exact h
    rcases wf.node j _ hj0 hr with ⟨sel, hs, _, hch, _⟩ | ⟨n, v, p, hrec, hp0, hpj, _⟩
    · rw [hst] at hs; injection hs with hs; subst hs
      simp only [Option.map_some, entryCss]
      by_cases hjm : j < 1 + (t.length - 2)
      · simp [hjm]
      · -- the last node cannot have children
        have hnil : (t[j]).children = [] := by
          cases hc : (t[j]).children with
          | nil => rfl
          | cons c cs =>
            exfalso
            obtain ⟨h1, n, v, h2⟩ := hch c (by simp [hc])
            have : c < t.length := by
              rcases Nat.lt_or_ge c t.length with h | h
              · exact h
              · rw [List.getElem?_eq_none h] at h2; cases h2
            omega
        simp [hjm, hnil, snocDecls]
    · have hk : k = .decl n v := by
        have := congrArg NodeRec.stmt hrec; rw [hst] at this; injection this
      subst hk
      have hp : (t[j]).parent = some p := by rw [hrec]
      have : p < 1 + (t.length - 2) := by omega
      simp [hp, this]

end Grass.CssTree
