import Grass.Value
import GrassProofs.Lemmas.ValueNum
/-
  Helper lemmas for C09, structure (kept apart from the property theorems in GrassProofs/C09.lean).
  Part 2: membership-style characterisations of the recursive helpers on `VPairs`/`VList`.
  Part 3: `veq` is reflexive / transitive / symmetric on the values described by `ok`.
-/
namespace Grass.Value

/-! ## Part 2 — lists of pairs -/

theorem any_iff (f : Value → Value → Bool) : ∀ (ps : VPairs),
    ps.any f = true ↔ ∃ e ∈ ps.toList, f e.1 e.2 = true
  | .nil => by simp [VPairs.any, VPairs.toList]
  | .cons k v t => by have ih := any_iff f t; simp [VPairs.any, VPairs.toList, ih]

theorem any_false_iff (f : Value → Value → Bool) : ∀ (ps : VPairs),
    ps.any f = false ↔ ∀ e ∈ ps.toList, f e.1 e.2 = false
  | .nil => by simp [VPairs.any, VPairs.toList]
  | .cons k v t => by have ih := any_false_iff f t; simp [VPairs.any, VPairs.toList, ih]

theorem subP_iff (sw : Sw) : ∀ (p q : VPairs),
    subP sw p q = true ↔
      ∀ e ∈ p.toList, q.any (fun k2 v2 => veq sw e.1 k2 && veq sw e.2 v2) = true
  | .nil, q => by simp [subP, VPairs.toList]
  | .cons k v t, q => by have ih := subP_iff sw t q; simp [subP, VPairs.toList, ih]

theorem length_toList : ∀ (p : VPairs), p.toList.length = p.length
  | .nil => rfl
  | .cons k v t => by simp [VPairs.toList, VPairs.length, length_toList t]

theorem vlength_toList : ∀ (l : VList), l.toList.length = l.length
  | .nil => rfl
  | .cons v t => by simp [VList.toList, VList.length, vlength_toList t]

theorem toList_ofList (l : List (Value × Value)) : (VPairs.ofList l).toList = l := by
  induction l with
  | nil => rfl
  | cons e t ih => obtain ⟨k, v⟩ := e; simp [VPairs.ofList, VPairs.toList, ih]

theorem ofList_toList : ∀ (p : VPairs), VPairs.ofList p.toList = p
  | .nil => rfl
  | .cons k v t => by simp [VPairs.ofList, VPairs.toList, ofList_toList t]

theorem toList_inj (p q : VPairs) (h : p.toList = q.toList) : p = q := by
  rw [← ofList_toList p, ← ofList_toList q, h]

/-- drop the first entry satisfying `f` -/
def eraseFirst (f : Value → Value → Bool) : VPairs → VPairs
  | .nil => .nil
  | .cons k v t => if f k v then t else .cons k v (eraseFirst f t)

theorem eraseFirst_length (f : Value → Value → Bool) : ∀ (q : VPairs) (_ : q.any f = true),
    (eraseFirst f q).length + 1 = q.length
  | .nil, h => by simp [VPairs.any] at h
  | .cons k v t, h => by
    have ih := eraseFirst_length f t
    simp only [eraseFirst]
    split
    · simp [VPairs.length]
    · rename_i hf
      simp only [VPairs.any, hf, Bool.false_or] at h
      simp [VPairs.length, ih h]

theorem mem_eraseFirst_of (f : Value → Value → Bool) (x : Value × Value)
    (hf : f x.1 x.2 = false) : ∀ (q : VPairs) (_ : x ∈ q.toList), x ∈ (eraseFirst f q).toList
  | .nil, hx => by simp [VPairs.toList] at hx
  | .cons k v t, hx => by
    have ih := mem_eraseFirst_of f x hf t
    simp only [VPairs.toList, List.mem_cons] at hx
    simp only [eraseFirst]
    split
    · rename_i h
      rcases hx with hx | hx
      · subst hx; simp [h] at hf
      · exact hx
    · simp only [VPairs.toList, List.mem_cons]
      rcases hx with hx | hx
      · exact Or.inl hx
      · exact Or.inr (ih hx)

theorem mem_of_mem_eraseFirst (f : Value → Value → Bool) (x : Value × Value) :
    ∀ (q : VPairs) (_ : x ∈ (eraseFirst f q).toList), x ∈ q.toList
  | .nil, hx => by simp [eraseFirst, VPairs.toList] at hx
  | .cons k v t, hx => by
    have ih := mem_of_mem_eraseFirst f x t
    simp only [eraseFirst] at hx
    simp only [VPairs.toList, List.mem_cons]
    split at hx
    · exact Or.inr hx
    · simp only [VPairs.toList, List.mem_cons] at hx
      rcases hx with hx | hx
      · exact Or.inl hx
      · exact Or.inr (ih hx)

theorem mem_split_eraseFirst (f : Value → Value → Bool) (q : VPairs) (x : Value × Value)
    (hx : x ∈ q.toList) : x ∈ (eraseFirst f q).toList ∨ f x.1 x.2 = true := by
  cases hf : f x.1 x.2
  · exact Or.inl (mem_eraseFirst_of f x hf q hx)
  · exact Or.inr rfl

theorem distinctKeys_iff_cons (sw : Sw) (k v : Value) (t : VPairs) :
    distinctKeys sw (.cons k v t) = true ↔
      (∀ e ∈ t.toList, veq sw k e.1 = false) ∧ distinctKeys sw t = true := by
  simp [distinctKeys, any_false_iff]

/-- Pigeonhole: if every entry of `p` has an equal entry in `q`, the keys of `p` are pairwise
    unequal and the lengths agree, then every entry of `q` has an equal entry in `p` — given
    symmetry of `veq` between entries of `p` and `q` and the instance of transitivity that
    turns two `p`-keys equal to one `q`-key into equal `p`-keys. -/
theorem subP_symm_of (sw : Sw) : ∀ (p q : VPairs),
    p.length = q.length → subP sw p q = true → distinctKeys sw p = true →
    (∀ e ∈ p.toList, ∀ x ∈ q.toList,
        (veq sw e.1 x.1 = true → veq sw x.1 e.1 = true) ∧ (veq sw e.2 x.2 = true → veq sw x.2 e.2 = true)) →
    (∀ e ∈ p.toList, ∀ e' ∈ p.toList, ∀ x ∈ q.toList,
        veq sw e.1 x.1 = true → veq sw x.1 e'.1 = true → veq sw e.1 e'.1 = true) →
    subP sw q p = true
  | .nil, q => by
    intro hlen _ _ _ _
    cases q with
    | nil => simp [subP]
    | cons k v t => simp [VPairs.length] at hlen
  | .cons k v t, q => by
    have ih := subP_symm_of sw t
    intro hlen hsub hd hsymm htr
    simp only [subP, Bool.and_eq_true] at hsub
    obtain ⟨hany, hsubt⟩ := hsub
    rw [distinctKeys_iff_cons] at hd
    obtain ⟨hdk, hdt⟩ := hd
    let f : Value → Value → Bool := fun k2 v2 => veq sw k k2 && veq sw v v2
    have hl : (eraseFirst f q).length + 1 = q.length := eraseFirst_length f q hany
    -- every entry of `t` still has its partner after the erasure
    have hsubt' : subP sw t (eraseFirst f q) = true := by
      rw [subP_iff] at hsubt ⊢
      intro e he
      have := hsubt e he
      rw [any_iff] at this ⊢
      obtain ⟨x, hx, hfx⟩ := this
      simp only [Bool.and_eq_true] at hfx
      refine ⟨x, ?_, by simp [hfx]⟩
      refine mem_eraseFirst_of f x ?_ q hx
      -- `x` is not a partner of the head, else `k == e.1`
      cases hkx : veq sw k x.1
      · simp [f, hkx]
      · exfalso
        have hxe : veq sw x.1 e.1 = true :=
          (hsymm e (by simp [VPairs.toList, he]) x hx).1 hfx.1
        have : veq sw k e.1 = true :=
          htr (k, v) (by simp [VPairs.toList]) e (by simp [VPairs.toList, he]) x hx hkx hxe
        rw [hdk e he] at this
        exact Bool.noConfusion this
    have hrec : subP sw (eraseFirst f q) t = true := by
      apply ih (eraseFirst f q) (by simp [VPairs.length] at hlen; omega) hsubt' hdt
      · intro e he x hx
        exact hsymm e (by simp [VPairs.toList, he]) x (mem_of_mem_eraseFirst f x q hx)
      · intro e he e' he' x hx
        exact htr e (by simp [VPairs.toList, he]) e' (by simp [VPairs.toList, he']) x
          (mem_of_mem_eraseFirst f x q hx)
    rw [subP_iff] at hrec ⊢
    intro x hx
    rw [any_iff]
    rcases mem_split_eraseFirst f q x hx with hx' | hfx
    · have := hrec x hx'
      rw [any_iff] at this
      obtain ⟨e, he, hfe⟩ := this
      exact ⟨e, by simp [VPairs.toList, he], hfe⟩
    · simp only [f, Bool.and_eq_true] at hfx
      have hs := hsymm (k, v) (by simp [VPairs.toList]) x hx
      exact ⟨(k, v), by simp [VPairs.toList], by simp [hs.1 hfx.1, hs.2 hfx.2]⟩

/-! ## Part 3 — `veq` on the values described by `ok` -/

mutual
  /-- The structural form of `inScope sw v ∧ inRange v`. -/
  def ok (sw : Sw) : Value → Bool
    | .num _ u => sw.canonSame || u.isCanon
    | .color r g b a => decide (r ≤ 255) && decide (g ≤ 255) && decide (b ≤ 255) && decide (a ≤ 1)
    | .list es _ _ => okL sw es
    | .map ps => okP sw ps
    | .arglist es kw _ => sw.argAsList && okL sw es && okP sw kw
    | _ => true
  def okL (sw : Sw) : VList → Bool
    | .nil => true
    | .cons v t => ok sw v && okL sw t
  def okP (sw : Sw) : VPairs → Bool
    | .nil => true
    | .cons k v t => ok sw k && ok sw v && okP sw t
end

mutual
  theorem ok_of (sw : Sw) : ∀ (v : Value), inScope sw v = true → inRange v = true → ok sw v = true
    | .null, _, _ => by simp [ok]
    | .bool _, _, _ => by simp [ok]
    | .num n u, h, _ => by simpa [ok, inScope, noArgList, unitsCanon] using h
    | .str _ _, _, _ => by simp [ok]
    | .color r g b a, _, h => by simpa [ok, inRange] using h
    | .list es sp br, h, h2 => by
      simp only [inScope, noArgList, unitsCanon, Bool.and_eq_true, Bool.or_eq_true] at h
      simp only [inRange] at h2
      simp only [ok]
      exact okL_of sw es h.1 h.2 h2
    | .map ps, h, h2 => by
      simp only [inScope, noArgList, unitsCanon, Bool.and_eq_true, Bool.or_eq_true] at h
      simp only [inRange] at h2
      simp only [ok]
      exact okP_of sw ps h.1 h.2 h2
    | .arglist es kw sp, h, h2 => by
      simp only [inScope, noArgList, unitsCanon, Bool.and_eq_true, Bool.or_eq_true, Bool.false_eq_true,
        or_false] at h
      simp only [inRange, Bool.and_eq_true] at h2
      simp only [ok, Bool.and_eq_true]
      refine ⟨⟨h.1, okL_of sw es (Or.inl h.1) ?_ h2.1⟩, okP_of sw kw (Or.inl h.1) ?_ h2.2⟩
      · rcases h.2 with h | h
        · exact Or.inl h
        · exact Or.inr h.1
      · rcases h.2 with h | h
        · exact Or.inl h
        · exact Or.inr h.2
  theorem okL_of (sw : Sw) : ∀ (l : VList), (sw.argAsList = true ∨ noArgListL l = true) →
      (sw.canonSame = true ∨ unitsCanonL l = true) → inRangeL l = true → okL sw l = true
    | .nil, _, _, _ => by simp [okL]
    | .cons v t, h1, h2, h3 => by
      simp only [noArgListL, unitsCanonL, inRangeL, Bool.and_eq_true] at h1 h2 h3
      simp only [okL, Bool.and_eq_true]
      refine ⟨ok_of sw v ?_ h3.1, okL_of sw t ?_ ?_ h3.2⟩
      · simp only [inScope, Bool.and_eq_true, Bool.or_eq_true]
        exact ⟨h1.elim Or.inl (fun h => Or.inr h.1), h2.elim Or.inl (fun h => Or.inr h.1)⟩
      · exact h1.elim Or.inl (fun h => Or.inr h.2)
      · exact h2.elim Or.inl (fun h => Or.inr h.2)
  theorem okP_of (sw : Sw) : ∀ (p : VPairs), (sw.argAsList = true ∨ noArgListP p = true) →
      (sw.canonSame = true ∨ unitsCanonP p = true) → inRangeP p = true → okP sw p = true
    | .nil, _, _, _ => by simp [okP]
    | .cons k v t, h1, h2, h3 => by
      simp only [noArgListP, unitsCanonP, inRangeP, Bool.and_eq_true] at h1 h2 h3
      simp only [okP, Bool.and_eq_true]
      refine ⟨⟨ok_of sw k ?_ h3.1.1, ok_of sw v ?_ h3.1.2⟩, okP_of sw t ?_ ?_ h3.2⟩
      · simp only [inScope, Bool.and_eq_true, Bool.or_eq_true]
        exact ⟨h1.elim Or.inl (fun h => Or.inr h.1.1), h2.elim Or.inl (fun h => Or.inr h.1.1)⟩
      · simp only [inScope, Bool.and_eq_true, Bool.or_eq_true]
        exact ⟨h1.elim Or.inl (fun h => Or.inr h.1.2), h2.elim Or.inl (fun h => Or.inr h.1.2)⟩
      · exact h1.elim Or.inl (fun h => Or.inr h.2)
      · exact h2.elim Or.inl (fun h => Or.inr h.2)
end

theorem okP_mem (sw : Sw) : ∀ (p : VPairs), okP sw p = true → ∀ e ∈ p.toList, ok sw e.1 = true ∧ ok sw e.2 = true
  | .nil, _, e, he => by simp [VPairs.toList] at he
  | .cons k v t, h, e, he => by
    simp only [okP, Bool.and_eq_true] at h
    simp only [VPairs.toList, List.mem_cons] at he
    rcases he with he | he
    · subst he; exact ⟨h.1.1, h.1.2⟩
    · exact okP_mem sw t h.2 e he

end Grass.Value
