import Grass.Scope
/-
  Helper lemmas for the scope-cache refinement (C03, part 1).
-/
namespace Grass.Scope

/-! ### heap reads after a write -/

theorem putAt_length (h : Heap) (fid n v) : (putAt h fid n v).length = h.length := by
  unfold putAt; split <;> simp

theorem getAt_putAt (h : Heap) (fid g : Nat) (n m : Name) (v : Val) (hf : fid < h.length) :
    getAt (putAt h fid n v) g m = if g = fid ∧ m = n then some v else getAt h g m := by
  unfold putAt
  have hget : h[fid]? = some h[fid] := List.getElem?_eq_getElem hf
  rw [hget]
  simp only [getAt]
  by_cases hg : g = fid
  · subst hg
    simp only [List.getElem?_set_self hf, Frame.get?, true_and]
    by_cases hm : m = n
    · subst hm; simp
    · have : (n == m) = false := by simp; exact fun e => hm e.symm
      simp [this, hm, hget]
  · have : (h.set fid ((n, v) :: h[fid]))[g]? = h[g]? := by
      rw [List.getElem?_set_ne]; exact fun e => hg e.symm
    simp [this, hg]

theorem hasAt_putAt (h : Heap) (fid g : Nat) (n m : Name) (v : Val) (hf : fid < h.length) :
    hasAt (putAt h fid n v) g m = (hasAt h g m || (g == fid && m == n)) := by
  unfold hasAt
  rw [getAt_putAt h fid g n m v hf]
  by_cases hc : g = fid ∧ m = n
  · simp [hc]
  · simp only [hc, if_false]
    have : (g == fid && m == n) = false := by
      simp only [Bool.and_eq_false_iff, beq_eq_false_iff_ne]; grind
    simp [this]

theorem hasAt_putAt_of_has (h : Heap) (fid g : Nat) (n : Name) (v : Val)
    (hh : hasAt h fid n = true) : hasAt (putAt h fid n v) g n = hasAt h g n := by
  have hf : fid < h.length := by
    unfold hasAt getAt at hh
    by_cases c : fid < h.length
    · exact c
    · simp [List.getElem?_eq_none (Nat.le_of_not_lt c)] at hh
  rw [hasAt_putAt h fid g n n v hf]
  by_cases e : g = fid
  · subst e; simp [hh]
  · simp [e]

theorem getAt_append_nil (h : Heap) (g : Nat) (m : Name) : getAt (h ++ [[]]) g m = getAt h g m := by
  unfold getAt
  by_cases c : g < h.length
  · rw [List.getElem?_append_left c]
  · have c' : h.length ≤ g := Nat.le_of_not_lt c
    rw [List.getElem?_eq_none c']
    by_cases e : g = h.length
    · subst e; simp [Frame.get?]
    · rw [List.getElem?_eq_none (by simp; omega)]

theorem hasAt_append_nil (h : Heap) (g : Nat) (m : Name) : hasAt (h ++ [[]]) g m = hasAt h g m := by
  unfold hasAt; rw [getAt_append_nil]

/-! ### `frameAt` -/

theorem frameAt_lt : ∀ (vs : List Nat) (i f : Nat), frameAt vs i = some f → i < vs.length
  | [], _, _, h => by simp [frameAt] at h
  | g :: gs, i, f, h => by
    unfold frameAt at h
    split at h
    · simp; omega
    · have := frameAt_lt gs i f h; simp; omega

theorem frameAt_mem : ∀ (vs : List Nat) (i f : Nat), frameAt vs i = some f → f ∈ vs
  | [], _, _, h => by simp [frameAt] at h
  | g :: gs, i, f, h => by
    unfold frameAt at h
    split at h
    · simp at h; simp [h]
    · have := frameAt_mem gs i f h; simp [this]

theorem frameAt_of_lt : ∀ (vs : List Nat) (i : Nat), i < vs.length → ∃ f, frameAt vs i = some f
  | [], _, h => by simp at h
  | g :: gs, i, h => by
    unfold frameAt
    split
    · exact ⟨g, rfl⟩
    · apply frameAt_of_lt gs i; simp at h; omega

theorem frameAt_zero : ∀ (vs : List Nat), frameAt vs 0 = vs.getLast?
  | [] => rfl
  | [g] => by simp [frameAt]
  | g :: g' :: gs => by
    have := frameAt_zero (g' :: gs)
    simp only [frameAt] at this ⊢
    simp [this, List.getLast?_cons_cons]

theorem frameAt_top (g : Nat) (gs : List Nat) : frameAt (g :: gs) gs.length = some g := by
  simp [frameAt]

/-! ### `find` -/

theorem find_lt : ∀ (h : Heap) (vs : List Nat) (n : Name) (i : Nat), find h vs n = some i → i < vs.length
  | _, [], _, _, e => by simp [find] at e
  | h, g :: gs, n, i, e => by
    unfold find at e
    split at e
    · simp at e; simp; omega
    · have := find_lt h gs n i e; simp; omega

theorem find_frameAt : ∀ (h : Heap) (vs : List Nat) (n : Name) (i : Nat), find h vs n = some i →
    ∃ fid, frameAt vs i = some fid ∧ hasAt h fid n = true
  | _, [], _, _, e => by simp [find] at e
  | h, g :: gs, n, i, e => by
    unfold find at e
    split at e
    · rename_i hg
      simp at e; subst e
      exact ⟨g, frameAt_top g gs, hg⟩
    · obtain ⟨fid, h1, h2⟩ := find_frameAt h gs n i e
      have := find_lt h gs n i e
      refine ⟨fid, ?_, h2⟩
      unfold frameAt
      have : i ≠ gs.length := by omega
      simp [this, h1]

theorem find_none_hasAt : ∀ (h : Heap) (vs : List Nat) (n : Name), find h vs n = none →
    ∀ f ∈ vs, hasAt h f n = false
  | _, [], _, _, f, hf => by simp at hf
  | h, g :: gs, n, e, f, hf => by
    unfold find at e
    split at e
    · simp at e
    · rename_i hg
      simp at hf
      rcases hf with rfl | hf
      · simpa using hg
      · exact find_none_hasAt h gs n e f hf

/-- `find` only depends on which frames hold the name. -/
theorem find_congr (h h' : Heap) (n : Name) : ∀ (vs : List Nat),
    (∀ f ∈ vs, hasAt h' f n = hasAt h f n) → find h' vs n = find h vs n
  | [], _ => rfl
  | g :: gs, hyp => by
    unfold find
    rw [hyp g (by simp), find_congr h h' n gs (fun f hf => hyp f (by simp [hf]))]

theorem find_putAt_other (h : Heap) (fid : Nat) (n m : Name) (v : Val) (vs : List Nat)
    (hf : fid < h.length) (hm : m ≠ n) : find (putAt h fid n v) vs m = find h vs m := by
  apply find_congr
  intro f _
  rw [hasAt_putAt h fid f n m v hf]
  simp [hm]

theorem find_putAt_has (h : Heap) (fid : Nat) (n : Name) (v : Val) (vs : List Nat)
    (hh : hasAt h fid n = true) : find (putAt h fid n v) vs n = find h vs n := by
  apply find_congr
  intro f _
  exact hasAt_putAt_of_has h fid f n v hh

theorem find_putAt_top (h : Heap) (fid : Nat) (n : Name) (v : Val) (fs : List Nat)
    (hf : fid < h.length) : find (putAt h fid n v) (fid :: fs) n = some fs.length := by
  unfold find
  rw [hasAt_putAt h fid fid n n v hf]
  simp

/-- Writing the name into a frame at or below the found index does not move the found index. -/
theorem find_putAt_below (h : Heap) (fid : Nat) (n : Name) (v : Val) (hf : fid < h.length) :
    ∀ (vs : List Nat) (i j : Nat), vs.Nodup → find h vs n = some i → frameAt vs j = some fid → j ≤ i →
      find (putAt h fid n v) vs n = some i
  | [], _, _, _, e, _, _ => by simp [find] at e
  | g :: gs, i, j, nd, e, fj, le => by
    unfold find at e ⊢
    split at e
    · rename_i hg
      have : hasAt (putAt h fid n v) g n = true := by
        rw [hasAt_putAt h fid g n n v hf, hg]; simp
      simp [this]; simpa using e
    · rename_i hg
      have hi := find_lt h gs n i e
      have hj : j ≠ gs.length := by omega
      unfold frameAt at fj
      simp only [hj, if_false] at fj
      have hmem := frameAt_mem gs j fid fj
      have hne : g ≠ fid := by
        intro e'; subst e'
        exact (List.nodup_cons.mp nd).1 hmem
      have : hasAt (putAt h fid n v) g n = false := by
        rw [hasAt_putAt h fid g n n v hf]
        simp [hne]; simpa using hg
      simp only [this]
      exact find_putAt_below h fid n v hf gs i j (List.nodup_cons.mp nd).2 e fj le

theorem find_append_nil (h : Heap) (vs : List Nat) (n : Name) : find (h ++ [[]]) vs n = find h vs n := by
  apply find_congr
  intro f _
  exact hasAt_append_nil h f n

/-! ### specification lookup in terms of `find` -/

theorem lookupSpec_none : ∀ (h : Heap) (vs : List Nat) (n : Name), find h vs n = none →
    lookupSpec h vs n = .undefined
  | _, [], _, _ => rfl
  | h, g :: gs, n, e => by
    unfold find at e
    split at e
    · simp at e
    · rename_i hg
      unfold lookupSpec
      have : getAt h g n = none := by
        unfold hasAt at hg; simpa using hg
      rw [this]
      exact lookupSpec_none h gs n e

theorem lookupSpec_some : ∀ (h : Heap) (vs : List Nat) (n : Name) (i fid : Nat),
    find h vs n = some i → frameAt vs i = some fid →
    ∃ v, getAt h fid n = some v ∧ lookupSpec h vs n = .val v
  | _, [], _, _, _, e, _ => by simp [find] at e
  | h, g :: gs, n, i, fid, e, fa => by
    unfold find at e
    split at e
    · rename_i hg
      simp at e; subst e
      rw [frameAt_top] at fa; simp at fa; subst fa
      unfold hasAt at hg
      cases hv : getAt h g n with
      | none => simp [hv] at hg
      | some v => exact ⟨v, rfl, by simp [lookupSpec, hv]⟩
    · rename_i hg
      have hi := find_lt h gs n i e
      have : i ≠ gs.length := by omega
      unfold frameAt at fa
      simp only [this, if_false] at fa
      obtain ⟨v, h1, h2⟩ := lookupSpec_some h gs n i fid e fa
      refine ⟨v, h1, ?_⟩
      unfold lookupSpec
      have : getAt h g n = none := by
        unfold hasAt at hg; simpa using hg
      rw [this]; exact h2

end Grass.Scope
