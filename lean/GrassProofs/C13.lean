import Grass.Import
/-
  C13 — Imports follow the documented search order, only via the supplied Fs.

  The theorems are about `Grass.Import` with `AsFound.spec` (all switches off = the documented
  behaviour) unless they are stated for every variant `af`.  `AsFound.current` (the code as it
  stands: D9, D10, D8b) appears only in the `C13_asFound_…` witnesses and in the lemma that says
  where the two variants can differ.  The correspondence run (tools/props/c13.py) is against
  `AsFound.current`.
-/
namespace Grass.Import

/-! ### generic list facts -/

theorem find?_prefix_clear {α} (p : α → Bool) (A B C : List α)
    (hA : ∀ a ∈ A, p a = false) (hB : ∃ b ∈ B, p b = true) :
    ∃ r ∈ B, (A ++ B ++ C).find? p = some r ∧ p r = true := by
  have h1 : A.find? p = none := by
    simp only [List.find?_eq_none]; intro a ha; simp [hA a ha]
  obtain ⟨b, hb, hpb⟩ := hB
  cases h2 : B.find? p with
  | none =>
    rw [List.find?_eq_none] at h2
    exact absurd hpb (by simpa using h2 b hb)
  | some r =>
    refine ⟨r, List.mem_of_find?_eq_some h2, ?_, List.find?_some h2⟩
    simp [List.find?_append, h1, h2]

theorem takeWhile_ne_of_find {α} [DecidableEq α] (p : α → Bool) (xs : List α) (r : α)
    (h : xs.find? p = some r) : ∀ q ∈ xs.takeWhile (· ≠ r), p q = false := by
  induction xs with
  | nil => simp
  | cons x xs ih =>
    intro q hq
    by_cases hx : x = r
    · subst hx; simp at hq
    · simp only [List.takeWhile_cons, ne_eq, hx, not_false_eq_true, decide_true, if_true,
        List.mem_cons] at hq
      have hpx : p x = false := by
        cases hp : p x with
        | false => rfl
        | true => simp [hp] at h; exact absurd h hx
      rcases hq with rfl | hq
      · exact hpx
      · simp [hpx] at h
        exact ih h q hq

/-! ### `firstFile`, `resolveLoc`, `resolveLocs`: result and calls -/

theorem firstFile_fst (fs : Fs) (ps : List Path) : (firstFile fs ps).1 = ps.find? fs.isFile := by
  induction ps with
  | nil => rfl
  | cons p ps ih =>
    unfold firstFile
    cases h : fs.isFile p <;> simp [h, ih]

theorem firstFile_calls (fs : Fs) (ps : List Path) :
    ∀ c ∈ (firstFile fs ps).2, ∃ p ∈ ps, c = .isFile p := by
  induction ps with
  | nil => intro c hc; simp [firstFile] at hc
  | cons p ps ih =>
    intro c hc
    unfold firstFile at hc
    cases h : fs.isFile p
    · simp only [h, Bool.false_eq_true, if_false, List.mem_cons] at hc
      rcases hc with rfl | hc
      · exact ⟨p, by simp, rfl⟩
      · obtain ⟨q, hq, rfl⟩ := ih c hc
        exact ⟨q, by simp [hq], rfl⟩
    · simp only [h, if_true, List.mem_singleton] at hc
      exact ⟨p, by simp, hc⟩

/-- The files of a location that can actually be reached given the answer to `is_dir`. -/
def Loc.eligible (fs : Fs) (l : Loc) : List Path :=
  l.files ++
    (match l.index with
     | none => []
     | some (d, gs) => if fs.isDir d then gs.flatten else [])

theorem resolveLoc_fst (fs : Fs) (l : Loc) :
    (resolveLoc fs l).1 = (l.eligible fs).find? fs.isFile := by
  unfold resolveLoc Loc.eligible
  simp only [firstFile_fst]
  cases h : l.files.find? fs.isFile with
  | some p => simp [List.find?_append, h]
  | none =>
    rcases hi : l.index with _ | ⟨d, gs⟩
    · simp [h]
    · cases hd : fs.isDir d <;> simp [h, hd]

theorem resolveLocs_fst (fs : Fs) (ls : List Loc) :
    (resolveLocs fs ls).1 = (ls.flatMap (Loc.eligible fs)).find? fs.isFile := by
  induction ls with
  | nil => rfl
  | cons l ls ih =>
    unfold resolveLocs
    simp only [List.flatMap_cons, List.find?_append, ← resolveLoc_fst, ← ih]
    cases h : (resolveLoc fs l).1 <;> simp

/-- A file system in which a file's parent is a directory. -/
def Fs.coherent (fs : Fs) : Prop :=
  ∀ (d : Path) (n : Comp), fs.isFile (d ++ [n]) = true → fs.isDir d = true

/-- Index candidates lie directly inside the directory that is tested with `is_dir`. -/
def Loc.wf (l : Loc) : Prop :=
  ∀ d gs, l.index = some (d, gs) → ∀ p ∈ gs.flatten, ∃ n, p = d ++ [n]

theorem eligible_find (fs : Fs) (hc : fs.coherent) (l : Loc) (hw : l.wf) :
    (l.eligible fs).find? fs.isFile = l.filePaths.find? fs.isFile := by
  unfold Loc.eligible Loc.filePaths Loc.indexFiles
  rcases hi : l.index with _ | ⟨d, gs⟩
  · rfl
  · cases hd : fs.isDir d
    · have : gs.flatten.find? fs.isFile = none := by
        rw [List.find?_eq_none]
        intro p hp hf
        obtain ⟨n, rfl⟩ := hw d gs hi p hp
        have := hc d n hf
        simp [hd] at this
      simp [hd, List.find?_append, this]
    · simp [hd]

theorem flatMap_find_congr {α β} (p : β → Bool) (f g : α → List β) (ls : List α)
    (h : ∀ l ∈ ls, (f l).find? p = (g l).find? p) :
    (ls.flatMap f).find? p = (ls.flatMap g).find? p := by
  induction ls with
  | nil => rfl
  | cons l ls ih =>
    simp only [List.flatMap_cons, List.find?_append]
    rw [h l (by simp), ih (fun l' hl' => h l' (by simp [hl']))]

/-- The file systems the check uses (the runner's in-memory Fs as modelled by `fsOf`; a real disk
    likewise) are coherent, so the hypothesis of the theorems below is satisfiable and is
    satisfied on every generated case. -/
theorem fsOf_coherent (files dirs : List Path) : (fsOf files dirs).coherent := by
  intro d n h
  simp only [fsOf] at h ⊢
  have hm : (d ++ [n]) ∈ files := by simpa using h
  simp only [Bool.or_eq_true, List.any_eq_true]
  refine Or.inl (Or.inr ⟨d ++ [n], hm, ?_⟩)
  simp [isProperPrefix, List.isPrefixOf_iff_prefix]

/-! ### shape of the candidate lists (readable form) -/

/-- `[n.sass, _n.sass, n.scss, _n.scss]` in `dir`. -/
def sassScssOf (dir : Path) (n : Comp) : List Path :=
  [dir ++ [n ++ '.' :: sassExt], dir ++ [('_' :: (n ++ '.' :: sassExt))],
   dir ++ [n ++ '.' :: scssExt], dir ++ [('_' :: (n ++ '.' :: scssExt))]]

/-- `[n.css, _n.css]` in `dir`. -/
def cssOf (dir : Path) (n : Comp) : List Path :=
  [dir ++ [n ++ '.' :: cssExt], dir ++ [('_' :: (n ++ '.' :: cssExt))]]

/-- All file names tried for the name `n` in `dir`: for `@import` the `n.import.*` variants
    first; Sass files before the CSS file. -/
def namedOf (imp : Bool) (dir : Path) (n : Comp) : List Path :=
  (if imp then sassScssOf dir (n ++ '.' :: importWord) ++ cssOf dir (n ++ '.' :: importWord) else []) ++
    (sassScssOf dir n ++ cssOf dir n)

theorem splitLast_append (d : Path) (b : Comp) : splitLast (d ++ [b]) = some (d, b) := by
  induction d with
  | nil => rfl
  | cons c cs ih =>
    cases cs with
    | nil => rfl
    | cons c' cs' =>
      show splitLast (c :: (c' :: cs' ++ [b])) = _
      unfold splitLast
      simp only [List.cons_append] at ih ⊢
      rw [ih]; rfl

theorem splitLast_eq_some (u : Path) (d : Path) (b : Comp) (h : splitLast u = some (d, b)) :
    u = d ++ [b] := by
  induction u generalizing d with
  | nil => simp [splitLast] at h
  | cons c cs ih =>
    cases cs with
    | nil => simp [splitLast] at h; obtain ⟨rfl, rfl⟩ := h; rfl
    | cons c' cs' =>
      unfold splitLast at h
      cases h2 : splitLast (c' :: cs') with
      | none => simp [h2] at h
      | some x =>
        obtain ⟨d', b'⟩ := x
        simp [h2] at h
        obtain ⟨rfl, rfl⟩ := h
        rw [ih d' h2]; rfl

theorem withExtensions_flatten (imp : Bool) (dir : Path) (n : Comp) :
    (withExtensions .spec imp dir n).flatten = namedOf imp dir n := by
  cases imp <;> rfl

/-- **Order inside one location**, URL without an explicit extension: the named files of
    `base` (import-only first when wanted, Sass before CSS), then the same for `base/index`. -/
theorem C13_location_layout (imp : Bool) (root udir : Path) (base : Comp)
    (hx : explicitExt base = none) :
    (locFor .spec imp root (udir ++ [base])).filePaths =
      namedOf imp (root ++ udir) base ++ namedOf imp (root ++ udir ++ [base]) indexName := by
  unfold locFor
  simp only [splitLast_append, hx, Loc.filePaths, Loc.files, Loc.indexFiles, withExtensions_flatten]

/-- **Order inside one location**, URL with an explicit `.scss`/`.sass`/`.css` extension: only
    the literal name and its partial (for `@import` preceded by the import-only sibling
    `stem.import.ext` and its partial); no other extension, no index file. -/
theorem C13_location_layout_explicit (imp : Bool) (root udir : Path) (base stem ext : Comp)
    (hx : explicitExt base = some (stem, ext)) :
    (locFor .spec imp root (udir ++ [base])).filePaths =
      (if imp then [root ++ udir ++ [stem ++ '.' :: (importWord ++ '.' :: ext)],
                    root ++ udir ++ [('_' :: (stem ++ '.' :: (importWord ++ '.' :: ext)))]] else []) ++
      [root ++ udir ++ [base], root ++ udir ++ [('_' :: base)]] := by
  unfold locFor
  simp only [splitLast_append, hx, Loc.filePaths, Loc.files, Loc.indexFiles]
  cases imp <;> rfl

/-- **Order of locations**: the importing file's directory, then the load paths as given. -/
theorem C13_locations_layout (importer url : Path) (lps : List Path) (fi : Bool) :
    fileCandidates .spec importer url lps fi =
      (locFor .spec fi importer.dropLast url).filePaths ++
        lps.flatMap (fun lp => (locFor .spec fi lp url).filePaths) := by
  simp [fileCandidates, locations, AsFound.spec, wantsImportOnly, List.flatMap_cons, List.flatMap_map]

theorem tryPath_shape (D : Path) (m : Comp) : ∀ p ∈ tryPath D m, ∃ k, p = D ++ [k] := by
  intro p hp
  simp only [tryPath, List.mem_cons, List.mem_nil_iff, or_false] at hp
  rcases hp with rfl | rfl <;> exact ⟨_, rfl⟩

theorem extGroups_shape (af : AsFound) (D : Path) (n : Comp) :
    ∀ p ∈ (extGroups af D n).flatten, ∃ k, p = D ++ [k] := by
  intro p hp
  simp only [extGroups, List.flatten_cons, List.flatten_nil, List.append_nil, List.mem_append] at hp
  rcases hp with (h | h) | h <;> exact tryPath_shape _ _ p h

theorem withExtensions_shape (af : AsFound) (imp : Bool) (D : Path) (n : Comp) :
    ∀ p ∈ (withExtensions af imp D n).flatten, ∃ k, p = D ++ [k] := by
  intro p hp
  simp only [withExtensions, List.flatten_append, List.mem_append] at hp
  rcases hp with h | h
  · cases imp
    · simp at h
    · exact extGroups_shape _ _ _ p h
  · exact extGroups_shape _ _ _ p h

theorem locFor_wf (af : AsFound) (imp : Bool) (root url : Path) : (locFor af imp root url).wf := by
  intro d gs hi p hp
  unfold locFor at hi
  rcases hs : splitLast url with _ | ⟨udir, base⟩
  · simp [hs] at hi
  · simp only [hs] at hi
    rcases hx : explicitExt base with _ | ⟨stem, ext⟩
    · simp only [hx, Option.some.injEq, Prod.mk.injEq] at hi
      obtain ⟨rfl, rfl⟩ := hi
      exact withExtensions_shape _ _ _ _ p hp
    · simp [hx] at hi

theorem locations_wf (af : AsFound) (importer url : Path) (lps : List Path) (fi : Bool) :
    ∀ l ∈ locations af importer url lps fi, l.wf := by
  intro l hl
  unfold locations at hl
  split at hl
  · simp at hl; subst hl; exact locFor_wf _ _ _ _
  · simp at hl
    rcases hl with rfl | ⟨lp, _, rfl⟩ <;> exact locFor_wf _ _ _ _

/-! ### the property theorems -/

/-- The search result is the first existing file of the ordered candidate list (any variant). -/
theorem C13_resolve_eq_find (af : AsFound) (fs : Fs) (hc : fs.coherent)
    (importer url : Path) (lps : List Path) (fi : Bool) :
    resolve af fs importer url lps fi = (fileCandidates af importer url lps fi).find? fs.isFile := by
  unfold resolve fileCandidates
  rw [resolveLocs_fst]
  apply flatMap_find_congr
  intro l hl
  exact eligible_find fs hc l (locations_wf af importer url lps fi l hl)

/-- **resolve_first_match**: the result is an existing candidate and no earlier candidate
    exists. -/
theorem C13_resolve_first_match (af : AsFound) (fs : Fs) (hc : fs.coherent)
    (importer url : Path) (lps : List Path) (fi : Bool) (p : Path)
    (h : resolve af fs importer url lps fi = some p) :
    p ∈ fileCandidates af importer url lps fi ∧ fs.isFile p = true ∧
    ∀ q ∈ (fileCandidates af importer url lps fi).takeWhile (· ≠ p), fs.isFile q = false := by
  rw [C13_resolve_eq_find af fs hc] at h
  exact ⟨List.mem_of_find?_eq_some h, List.find?_some h, takeWhile_ne_of_find _ _ _ h⟩

example : resolve .spec (fsOf [[['a', '.', 's', 'c', 's', 's']], [['a', '.', 'c', 's', 's']]] [])
    [['m']] [['a']] [] true = some [['a', '.', 's', 'c', 's', 's']] := by decide

/-- **no_match_is_error** (and only then): the load fails with "Can't find stylesheet to
    import." exactly when no candidate file exists. -/
theorem C13_no_match_is_error (af : AsFound) (fs : Fs) (hc : fs.coherent)
    (importer url : Path) (lps : List Path) (fi : Bool) :
    (load af fs importer url lps fi).1 = .cantFind ↔
      ∀ p ∈ fileCandidates af importer url lps fi, fs.isFile p = false := by
  have hr := C13_resolve_eq_find af fs hc importer url lps fi
  unfold resolve at hr
  unfold load
  constructor
  · intro h
    cases h2 : (resolveLocs fs (locations af importer url lps fi)).1 with
    | some p => simp [h2] at h
    | none =>
      rw [h2] at hr
      have := List.find?_eq_none.mp hr.symm
      intro p hp; simpa using this p hp
  · intro h
    have : (fileCandidates af importer url lps fi).find? fs.isFile = none := by
      rw [List.find?_eq_none]; intro p hp; simp [h p hp]
    rw [this] at hr
    simp [hr]

example : (load .spec (fsOf [] []) [['m']] [['a']] [[['l']]] true).1 = .cantFind := by decide

/-- First location with any existing candidate wins (generic form behind the next two). -/
theorem first_location_wins (fs : Fs) (hc : fs.coherent) (pre post : List Loc) (l : Loc)
    (hw : ∀ l' ∈ pre ++ l :: post, l'.wf)
    (hpre : ∀ l' ∈ pre, ∀ p ∈ l'.filePaths, fs.isFile p = false)
    (hl : ∃ p ∈ l.filePaths, fs.isFile p = true) :
    ∃ r ∈ l.filePaths, (resolveLocs fs (pre ++ l :: post)).1 = some r ∧ fs.isFile r = true := by
  have e : (resolveLocs fs (pre ++ l :: post)).1 =
      ((pre ++ l :: post).flatMap Loc.filePaths).find? fs.isFile := by
    rw [resolveLocs_fst]
    exact flatMap_find_congr _ _ _ _ (fun l' hl' => eligible_find fs hc l' (hw l' hl'))
  rw [e]
  have := find?_prefix_clear fs.isFile (pre.flatMap Loc.filePaths) l.filePaths
    (post.flatMap Loc.filePaths)
    (by intro a ha; obtain ⟨l', hl', ha'⟩ := List.mem_flatMap.mp ha; exact hpre l' hl' a ha')
    hl
  simpa [List.flatMap_append, List.flatMap_cons, List.append_assoc] using this

/-- **relative_before_load_paths**: if any candidate relative to the importing file exists, the
    result is one of the relative candidates, whatever the load paths contain. -/
theorem C13_relative_before_load_paths (fs : Fs) (hc : fs.coherent)
    (importer url : Path) (lps : List Path) (fi : Bool)
    (h : ∃ p ∈ (locFor .spec fi importer.dropLast url).filePaths, fs.isFile p = true) :
    ∃ r ∈ (locFor .spec fi importer.dropLast url).filePaths,
      resolve .spec fs importer url lps fi = some r := by
  have hw := locations_wf .spec importer url lps fi
  have hloc : locations .spec importer url lps fi =
      [] ++ locFor .spec fi importer.dropLast url :: lps.map (fun lp => locFor .spec fi lp url) := by
    simp [locations, AsFound.spec, wantsImportOnly]
  rw [hloc] at hw
  obtain ⟨r, hr, he, _⟩ := first_location_wins fs hc [] _ _ hw (by simp) h
  exact ⟨r, hr, by unfold resolve; rw [hloc]; exact he⟩

example : resolve .spec (fsOf [[['a', '.', 'c', 's', 's']], [['l'], ['a', '.', 's', 'c', 's', 's']]] [])
    [['m']] [['a']] [[['l']]] true = some [['a', '.', 'c', 's', 's']] := by decide

/-- **load_paths_in_order**: if nothing matches relative to the importing file nor in the load
    paths before `lp`, and something matches in `lp`, the result is one of `lp`'s candidates. -/
theorem C13_load_paths_in_order (fs : Fs) (hc : fs.coherent)
    (importer url : Path) (pre post : List Path) (lp : Path) (fi : Bool)
    (hrel : ∀ p ∈ (locFor .spec fi importer.dropLast url).filePaths, fs.isFile p = false)
    (hpre : ∀ lp' ∈ pre, ∀ p ∈ (locFor .spec fi lp' url).filePaths, fs.isFile p = false)
    (h : ∃ p ∈ (locFor .spec fi lp url).filePaths, fs.isFile p = true) :
    ∃ r ∈ (locFor .spec fi lp url).filePaths,
      resolve .spec fs importer url (pre ++ lp :: post) fi = some r := by
  have hw := locations_wf .spec importer url (pre ++ lp :: post) fi
  have hloc : locations .spec importer url (pre ++ lp :: post) fi =
      (locFor .spec fi importer.dropLast url :: pre.map (fun lp => locFor .spec fi lp url)) ++
        locFor .spec fi lp url :: post.map (fun lp => locFor .spec fi lp url) := by
    simp [locations, AsFound.spec, wantsImportOnly]
  rw [hloc] at hw
  obtain ⟨r, hr, he, _⟩ := first_location_wins fs hc _ _ _ hw
    (by
      intro l' hl' p hp
      simp only [List.mem_cons, List.mem_map] at hl'
      rcases hl' with rfl | ⟨lp', hlp', rfl⟩
      · exact hrel p hp
      · exact hpre lp' hlp' p hp) h
  exact ⟨r, hr, by unfold resolve; rw [hloc]; exact he⟩

example : resolve .spec (fsOf [[['k'], ['a', '.', 's', 'c', 's', 's']], [['l'], ['a', '.', 's', 'a', 's', 's']]] [])
    [['m']] [['a']] [[['l']], [['k']]] false = some [['l'], ['a', '.', 's', 'a', 's', 's']] := by decide

/-- Result of searching one non-explicit location, as a `find?` over its layout. -/
theorem resolveLoc_layout (fs : Fs) (hc : fs.coherent) (imp : Bool) (root udir : Path) (base : Comp)
    (hx : explicitExt base = none) :
    (resolveLoc fs (locFor .spec imp root (udir ++ [base]))).1 =
      (namedOf imp (root ++ udir) base ++ namedOf imp (root ++ udir ++ [base]) indexName).find? fs.isFile := by
  rw [resolveLoc_fst, eligible_find fs hc _ (locFor_wf _ _ _ _), C13_location_layout imp root udir base hx]

/-- **file_before_index**: if any of the named files of `base` exists in a location, the result
    for that location is one of them, never an index file. -/
theorem C13_file_before_index (fs : Fs) (hc : fs.coherent) (imp : Bool) (root udir : Path) (base : Comp)
    (hx : explicitExt base = none)
    (h : ∃ p ∈ namedOf imp (root ++ udir) base, fs.isFile p = true) :
    ∃ r ∈ namedOf imp (root ++ udir) base,
      (resolveLoc fs (locFor .spec imp root (udir ++ [base]))).1 = some r := by
  rw [resolveLoc_layout fs hc imp root udir base hx]
  obtain ⟨r, hr, he, _⟩ := find?_prefix_clear fs.isFile [] (namedOf imp (root ++ udir) base)
    (namedOf imp (root ++ udir ++ [base]) indexName) (by simp) h
  exact ⟨r, hr, by simpa using he⟩

example : (resolveLoc (fsOf [[['a'], ['i', 'n', 'd', 'e', 'x', '.', 's', 'c', 's', 's']], [['_', 'a', '.', 'c', 's', 's']]] [])
    (locFor .spec false [] [['a']])).1 = some [['_', 'a', '.', 'c', 's', 's']] := by decide

/-- **sass_scss_before_css**: within the named files of `n` (no import-only file present), if a
    `.sass`/`.scss` file or partial exists the result is one of those, never `n.css`. -/
theorem C13_sass_scss_before_css (fs : Fs) (hc : fs.coherent) (imp : Bool) (root udir : Path) (base : Comp)
    (hx : explicitExt base = none)
    (hio : imp = true → ∀ p ∈ sassScssOf (root ++ udir) (base ++ '.' :: importWord) ++
                               cssOf (root ++ udir) (base ++ '.' :: importWord), fs.isFile p = false)
    (h : ∃ p ∈ sassScssOf (root ++ udir) base, fs.isFile p = true) :
    ∃ r ∈ sassScssOf (root ++ udir) base,
      (resolveLoc fs (locFor .spec imp root (udir ++ [base]))).1 = some r := by
  rw [resolveLoc_layout fs hc imp root udir base hx]
  obtain ⟨r, hr, he, _⟩ := find?_prefix_clear fs.isFile
    (if imp then sassScssOf (root ++ udir) (base ++ '.' :: importWord) ++
        cssOf (root ++ udir) (base ++ '.' :: importWord) else [])
    (sassScssOf (root ++ udir) base)
    (cssOf (root ++ udir) base ++ namedOf imp (root ++ udir ++ [base]) indexName)
    (by cases imp <;> simp_all) h
  refine ⟨r, hr, ?_⟩
  rw [← he]; simp [namedOf, List.append_assoc]

/-- the same one level down: `index.sass`/`index.scss` before `index.css`. -/
theorem C13_sass_scss_before_css_index (fs : Fs) (hc : fs.coherent) (root udir : Path) (base : Comp)
    (hx : explicitExt base = none)
    (hnamed : ∀ p ∈ namedOf false (root ++ udir) base, fs.isFile p = false)
    (h : ∃ p ∈ sassScssOf (root ++ udir ++ [base]) indexName, fs.isFile p = true) :
    ∃ r ∈ sassScssOf (root ++ udir ++ [base]) indexName,
      (resolveLoc fs (locFor .spec false root (udir ++ [base]))).1 = some r := by
  rw [resolveLoc_layout fs hc false root udir base hx]
  obtain ⟨r, hr, he, _⟩ := find?_prefix_clear fs.isFile
    (namedOf false (root ++ udir) base) (sassScssOf (root ++ udir ++ [base]) indexName)
    (cssOf (root ++ udir ++ [base]) indexName) hnamed h
  refine ⟨r, hr, ?_⟩
  rw [← he]; simp [namedOf, List.append_assoc]

example : (resolveLoc (fsOf [[['a', '.', 'c', 's', 's']], [['_', 'a', '.', 's', 'c', 's', 's']]] [])
    (locFor .spec true [] [['a']])).1 = some [['_', 'a', '.', 's', 'c', 's', 's']] := by decide

/-- **import_only_variants_only_for_import** (preference): for `@import`, an existing
    `n.import.*` file (or partial) wins over every plain `n.*` file. -/
theorem C13_import_only_preferred_for_import (fs : Fs) (hc : fs.coherent) (root udir : Path) (base : Comp)
    (hx : explicitExt base = none)
    (h : ∃ p ∈ sassScssOf (root ++ udir) (base ++ '.' :: importWord) ++
                cssOf (root ++ udir) (base ++ '.' :: importWord), fs.isFile p = true) :
    ∃ r ∈ sassScssOf (root ++ udir) (base ++ '.' :: importWord) ++
            cssOf (root ++ udir) (base ++ '.' :: importWord),
      (resolveLoc fs (locFor .spec true root (udir ++ [base]))).1 = some r := by
  rw [resolveLoc_layout fs hc true root udir base hx]
  obtain ⟨r, hr, he, _⟩ := find?_prefix_clear fs.isFile []
    (sassScssOf (root ++ udir) (base ++ '.' :: importWord) ++ cssOf (root ++ udir) (base ++ '.' :: importWord))
    (sassScssOf (root ++ udir) base ++ cssOf (root ++ udir) base ++
      namedOf true (root ++ udir ++ [base]) indexName) (by simp) h
  refine ⟨r, hr, ?_⟩
  rw [← he]; simp [namedOf, List.append_assoc]

/-- **import_only_variants_only_for_import** (exclusion): `@use`/`@forward` (`forImport = false`)
    have no import-only candidate at all: in every location exactly the six plain names of
    `base` and the six of `base/index`. -/
theorem C13_import_only_variants_only_for_import (importer udir : Path) (base : Comp) (lps : List Path)
    (hx : explicitExt base = none) :
    fileCandidates .spec importer (udir ++ [base]) lps false =
      (importer.dropLast :: lps).flatMap (fun root =>
        (sassScssOf (root ++ udir) base ++ cssOf (root ++ udir) base) ++
        (sassScssOf (root ++ udir ++ [base]) indexName ++ cssOf (root ++ udir ++ [base]) indexName)) := by
  rw [C13_locations_layout]
  simp only [List.flatMap_cons, C13_location_layout false _ udir base hx, namedOf,
    Bool.false_eq_true, if_false, List.nil_append]

example : fileCandidates .spec [['m']] [['u']] [] false =
    [[['u', '.', 's', 'a', 's', 's']], [['_', 'u', '.', 's', 'a', 's', 's']],
     [['u', '.', 's', 'c', 's', 's']], [['_', 'u', '.', 's', 'c', 's', 's']],
     [['u', '.', 'c', 's', 's']], [['_', 'u', '.', 'c', 's', 's']],
     [['u'], ['i', 'n', 'd', 'e', 'x', '.', 's', 'a', 's', 's']], [['u'], ['_', 'i', 'n', 'd', 'e', 'x', '.', 's', 'a', 's', 's']],
     [['u'], ['i', 'n', 'd', 'e', 'x', '.', 's', 'c', 's', 's']], [['u'], ['_', 'i', 'n', 'd', 'e', 'x', '.', 's', 'c', 's', 's']],
     [['u'], ['i', 'n', 'd', 'e', 'x', '.', 'c', 's', 's']], [['u'], ['_', 'i', 'n', 'd', 'e', 'x', '.', 'c', 's', 's']]] := by
  decide

/-- **explicit_extension_only_literal_and_partial**: a URL that already ends in
    `.scss`/`.sass`/`.css` is tried in every location (relative first, then each load path) only
    literally and as a partial — for `@import` preceded by its import-only sibling
    `stem.import.ext` — never with another extension and never as a directory. -/
theorem C13_explicit_extension_only_literal_and_partial (importer udir : Path) (base stem ext : Comp)
    (lps : List Path) (fi : Bool) (hx : explicitExt base = some (stem, ext)) :
    fileCandidates .spec importer (udir ++ [base]) lps fi =
      (importer.dropLast :: lps).flatMap (fun root =>
        (if fi then [root ++ udir ++ [stem ++ '.' :: (importWord ++ '.' :: ext)],
                     root ++ udir ++ [('_' :: (stem ++ '.' :: (importWord ++ '.' :: ext)))]] else []) ++
        [root ++ udir ++ [base], root ++ udir ++ [('_' :: base)]]) := by
  rw [C13_locations_layout]
  simp only [List.flatMap_cons, C13_location_layout_explicit fi _ udir base stem ext hx]

example : fileCandidates .spec [['m']] [['q', '.', 's', 'c', 's', 's']] [[['l']]] false =
    [[['q', '.', 's', 'c', 's', 's']], [['_', 'q', '.', 's', 'c', 's', 's']],
     [['l'], ['q', '.', 's', 'c', 's', 's']], [['l'], ['_', 'q', '.', 's', 'c', 's', 's']]] := by decide

/-- **basename_dots_kept**: the extension is appended to the whole basename: every candidate
    name of `base` is `base ++ "." ++ suffix` or `"_" ++ base ++ "." ++ suffix`, whatever dots
    `base` contains. -/
theorem C13_basename_dots_kept (imp : Bool) (dir : Path) (base : Comp) :
    ∀ p ∈ namedOf imp dir base, ∃ sfx ∈ importOnlySuffixes ++ plainSuffixes,
      p = dir ++ [base ++ '.' :: sfx] ∨ p = dir ++ [('_' :: (base ++ '.' :: sfx))] := by
  intro p hp
  cases imp
  · simp only [namedOf, sassScssOf, cssOf, Bool.false_eq_true, if_false, List.nil_append,
      List.cons_append, List.mem_cons, List.mem_nil_iff, or_false] at hp
    rcases hp with h | h | h | h | h | h <;> subst h <;>
      simp [importOnlySuffixes, plainSuffixes, sassExt, scssExt, cssExt, importWord]
  · simp only [namedOf, sassScssOf, cssOf, if_true, List.nil_append, List.append_assoc,
      List.cons_append, List.mem_cons, List.mem_nil_iff, or_false] at hp
    rcases hp with h | h | h | h | h | h | h | h | h | h | h | h <;> subst h <;>
      simp [importOnlySuffixes, plainSuffixes, sassExt, scssExt, cssExt, importWord]

example : addExt .spec ['f', 'o', 'o', '.', 'b', 'a', 'r'] scssExt =
    ['f', 'o', 'o', '.', 'b', 'a', 'r', '.', 's', 'c', 's', 's'] := by decide

/-! ### confinement -/

theorem mem_probes_file (l : Loc) (p : Path) (h : p ∈ l.files) : Probe.isFile p ∈ l.probes := by
  unfold Loc.probes
  exact List.mem_append_left _ (List.mem_map.mpr ⟨p, h, rfl⟩)

theorem mem_probes_dir (l : Loc) (d : Path) (gs : List (List Path)) (hi : l.index = some (d, gs)) :
    Probe.isDir d ∈ l.probes := by
  unfold Loc.probes
  rw [hi]
  exact List.mem_append_right _ (List.mem_cons_self ..)

theorem mem_probes_index (l : Loc) (d : Path) (gs : List (List Path)) (hi : l.index = some (d, gs))
    (p : Path) (hp : p ∈ gs.flatten) : Probe.isFile p ∈ l.probes := by
  unfold Loc.probes
  rw [hi]
  exact List.mem_append_right _ (List.mem_cons_of_mem _ (List.mem_map.mpr ⟨p, hp, rfl⟩))

theorem resolveLoc_calls (fs : Fs) (l : Loc) : ∀ c ∈ (resolveLoc fs l).2, c ∈ l.probes := by
  intro c hc
  unfold resolveLoc at hc
  have hf := firstFile_calls fs l.files
  cases h1 : (firstFile fs l.files).1 with
  | some p =>
    simp only [h1] at hc
    obtain ⟨q, hq, rfl⟩ := hf c hc
    exact mem_probes_file l q hq
  | none =>
    simp only [h1] at hc
    rcases hi : l.index with _ | ⟨d, gs⟩
    · simp only [hi] at hc
      obtain ⟨q, hq, rfl⟩ := hf c hc
      exact mem_probes_file l q hq
    · simp only [hi] at hc
      cases hd : fs.isDir d
      · simp only [hd, Bool.false_eq_true, if_false, List.mem_append, List.mem_singleton] at hc
        rcases hc with hc | rfl
        · obtain ⟨q, hq, rfl⟩ := hf c hc; exact mem_probes_file l q hq
        · exact mem_probes_dir l d gs hi
      · simp only [hd, if_true, List.mem_append, List.mem_cons] at hc
        rcases hc with hc | rfl | hc
        · obtain ⟨q, hq, rfl⟩ := hf c hc; exact mem_probes_file l q hq
        · exact mem_probes_dir l d gs hi
        · obtain ⟨q, hq, rfl⟩ := firstFile_calls fs gs.flatten c hc
          exact mem_probes_index l d gs hi q hq

theorem resolveLocs_calls (fs : Fs) (ls : List Loc) :
    ∀ c ∈ (resolveLocs fs ls).2, c ∈ ls.flatMap Loc.probes := by
  induction ls with
  | nil => intro c hc; simp [resolveLocs] at hc
  | cons l ls ih =>
    intro c hc
    unfold resolveLocs at hc
    cases h : (resolveLoc fs l).1 with
    | some p =>
      simp only [h] at hc
      simp [resolveLoc_calls fs l c hc]
    | none =>
      simp only [h, List.mem_append] at hc
      rcases hc with hc | hc
      · simp [resolveLoc_calls fs l c hc]
      · simp [ih c hc]

/-- **confinement** (existence tests): every `is_file`/`is_dir` call the search makes is one of
    `candidates` — for every variant of the model and every file system. -/
theorem C13_confinement (af : AsFound) (fs : Fs) (importer url : Path) (lps : List Path) (fi : Bool) :
    ∀ c ∈ trace af fs importer url lps fi, c ∈ candidates af importer url lps fi :=
  resolveLocs_calls fs _

/-- **confinement** (reads): a load reads exactly the resolved file, once, after the probes; a
    failed load reads nothing. -/
theorem C13_confinement_reads (af : AsFound) (fs : Fs) (importer url : Path) (lps : List Path) (fi : Bool) :
    (load af fs importer url lps fi).2 =
      (trace af fs importer url lps fi).map .probe ++
        (match resolve af fs importer url lps fi with
         | some p => [.read p]
         | none => []) := by
  unfold load trace resolve
  cases h : (resolveLocs fs (locations af importer url lps fi)).1 <;> simp [h]

example : (load .spec (fsOf [[['_', 'a', '.', 's', 'a', 's', 's']]] []) [['m']] [['a']] [] false).2 =
    [.probe (.isFile [['a', '.', 's', 'a', 's', 's']]), .probe (.isFile [['_', 'a', '.', 's', 'a', 's', 's']]),
     .read [['_', 'a', '.', 's', 'a', 's', 's']]] := by decide

example : ∀ c ∈ trace .spec (fsOf [[['a'], ['_', 'i', 'n', 'd', 'e', 'x', '.', 's', 'c', 's', 's']]] []) [['m']] [['a']] [] false,
    c ∈ candidates .spec [['m']] [['a']] [] false :=
  C13_confinement _ _ _ _ _ _

/-! Result and calls depend only on what the supplied Fs answers on candidate paths. -/

theorem firstFile_congr (fs fs' : Fs) (ps : List Path) (h : ∀ p ∈ ps, fs.isFile p = fs'.isFile p) :
    firstFile fs ps = firstFile fs' ps := by
  induction ps with
  | nil => rfl
  | cons p ps ih =>
    unfold firstFile
    rw [← h p (by simp), ih (fun q hq => h q (by simp [hq]))]

def agreeOn (fs fs' : Fs) (c : Probe) : Prop :=
  match c with
  | .isFile p => fs.isFile p = fs'.isFile p
  | .isDir p => fs.isDir p = fs'.isDir p

theorem resolveLoc_congr (fs fs' : Fs) (l : Loc) (h : ∀ c ∈ l.probes, agreeOn fs fs' c) :
    resolveLoc fs l = resolveLoc fs' l := by
  unfold resolveLoc
  have h1 : firstFile fs l.files = firstFile fs' l.files :=
    firstFile_congr fs fs' _ (fun p hp => h (.isFile p) (mem_probes_file l p hp))
  rw [h1]
  rcases hi : l.index with _ | ⟨d, gs⟩
  · rfl
  · have h2 : fs.isDir d = fs'.isDir d := h (.isDir d) (mem_probes_dir l d gs hi)
    have h3 : firstFile fs gs.flatten = firstFile fs' gs.flatten :=
      firstFile_congr fs fs' _ (fun p hp => h (.isFile p) (mem_probes_index l d gs hi p hp))
    simp only [h2, h3]

theorem resolveLocs_congr (fs fs' : Fs) (ls : List Loc)
    (h : ∀ c ∈ ls.flatMap Loc.probes, agreeOn fs fs' c) : resolveLocs fs ls = resolveLocs fs' ls := by
  induction ls with
  | nil => rfl
  | cons l ls ih =>
    unfold resolveLocs
    rw [resolveLoc_congr fs fs' l (fun c hc => h c (by simp [hc])),
        ih (fun c hc => h c (by simp only [List.flatMap_cons, List.mem_append]; exact Or.inr hc))]

/-- **independence of everything else** (“the result never depends on the real disk or working
    directory”): two file systems that answer alike on the candidate probes give the same
    outcome and the same sequence of calls. -/
theorem C13_depends_only_on_candidates (af : AsFound) (fs fs' : Fs) (importer url : Path) (lps : List Path)
    (fi : Bool) (h : ∀ c ∈ candidates af importer url lps fi, agreeOn fs fs' c) :
    load af fs importer url lps fi = load af fs' importer url lps fi := by
  unfold load
  rw [resolveLocs_congr fs fs' _ h]

/-- e.g. a file `a.txt` (not a candidate of `@use "a"`) appearing on disk changes nothing. -/
example : load .spec (fsOf [[['a', '.', 's', 'c', 's', 's']], [['a', '.', 't', 'x', 't']]] []) [['m']] [['a']] [] false =
    load .spec (fsOf [[['a', '.', 's', 'c', 's', 's']]] []) [['m']] [['a']] [] false := by decide

/-! ### the documented group-by-group search agrees when it is unambiguous -/

theorem docGroups_found (fs : Fs) (gs : List (List Path)) (p : Path) (h : docGroups fs gs = .found p) :
    gs.flatten.find? fs.isFile = some p := by
  induction gs with
  | nil => simp [docGroups] at h
  | cons g gs ih =>
    unfold docGroups at h
    simp only [List.flatten_cons, List.find?_append]
    have hh : (g.filter fs.isFile).head? = g.find? fs.isFile := List.head?_filter ..
    split at h
    · rename_i he; rw [he] at hh; simp [← hh, ih h]
    · rename_i q he; rw [he] at hh; cases h; simp [← hh]
    · cases h

theorem docGroups_none (fs : Fs) (gs : List (List Path)) (h : docGroups fs gs = .none) :
    gs.flatten.find? fs.isFile = none := by
  induction gs with
  | nil => rfl
  | cons g gs ih =>
    unfold docGroups at h
    simp only [List.flatten_cons, List.find?_append]
    have hh : (g.filter fs.isFile).head? = g.find? fs.isFile := List.head?_filter ..
    split at h
    · rename_i he; rw [he] at hh; simp [← hh, ih h]
    · cases h
    · cases h

theorem docLoc_found (fs : Fs) (l : Loc) (p : Path) (h : docLoc fs l = .found p) :
    (resolveLoc fs l).1 = some p := by
  rw [resolveLoc_fst]; unfold Loc.eligible Loc.files
  unfold docLoc at h
  simp only [List.find?_append]
  cases hg : docGroups fs l.groups with
  | found q => simp [hg] at h; subst h; simp [docGroups_found fs _ _ hg]
  | ambiguous => simp [hg] at h
  | none =>
    simp only [hg] at h
    rw [docGroups_none fs _ hg]
    rcases hi : l.index with _ | ⟨d, gs⟩
    · simp [hi] at h
    · simp only [hi] at h
      cases hd : fs.isDir d
      · simp [hd] at h
      · simp only [hd, if_true] at h
        have e := docGroups_found fs _ _ h
        show none.or (List.find? fs.isFile (if fs.isDir d = true then gs.flatten else [])) = some p
        rw [hd, if_pos rfl, e]; rfl

theorem docLoc_none (fs : Fs) (l : Loc) (h : docLoc fs l = .none) : (resolveLoc fs l).1 = none := by
  rw [resolveLoc_fst]; unfold Loc.eligible Loc.files
  unfold docLoc at h
  simp only [List.find?_append]
  cases hg : docGroups fs l.groups with
  | found q => simp [hg] at h
  | ambiguous => simp [hg] at h
  | none =>
    simp only [hg] at h
    rw [docGroups_none fs _ hg]
    rcases hi : l.index with _ | ⟨d, gs⟩
    · simp
    · simp only [hi] at h
      cases hd : fs.isDir d
      · show none.or (List.find? fs.isFile (if fs.isDir d = true then gs.flatten else [])) = none
        rw [hd, if_neg (by simp)]; rfl
      · simp only [hd, if_true] at h
        have e := docGroups_none fs _ h
        show none.or (List.find? fs.isFile (if fs.isDir d = true then gs.flatten else [])) = none
        rw [hd, if_pos rfl, e]; rfl

theorem docLocs_sound (fs : Fs) (ls : List Loc) :
    (∀ p, docLocs fs ls = .found p → (resolveLocs fs ls).1 = some p) ∧
    (docLocs fs ls = .none → (resolveLocs fs ls).1 = none) := by
  induction ls with
  | nil => simp [docLocs, resolveLocs]
  | cons l ls ih =>
    unfold docLocs resolveLocs
    cases hl : docLoc fs l with
    | found q => simp [docLoc_found fs l q hl]
    | ambiguous => simp
    | none => simp only [docLoc_none fs l hl]; exact ih

/-- **documented order**: whenever the documented search (locations in order; within a location
    the same-priority groups `{n.sass,_n.sass,n.scss,_n.scss}`, `{n.css,_n.css}`, import-only
    groups first for `@import`, then `index`; exactly one existing file allowed per winning group)
    finds `p` without ambiguity, the ordered search finds the same `p`; when it finds nothing,
    neither does the ordered search.  Ambiguous layouts are the ones the property excludes. -/
theorem C13_documented_search_agrees (fs : Fs) (importer url : Path) (lps : List Path) (fi : Bool) :
    (∀ p, docResolve fs importer url lps fi = .found p → resolve .spec fs importer url lps fi = some p) ∧
    (docResolve fs importer url lps fi = .none → resolve .spec fs importer url lps fi = none) :=
  docLocs_sound fs _

example : docResolve (fsOf [[['a', '.', 's', 'c', 's', 's']], [['_', 'a', '.', 's', 'c', 's', 's']]] [])
    [['m']] [['a']] [] true = .ambiguous := by decide
example : docResolve (fsOf [[['a', '.', 's', 'c', 's', 's']], [['_', 'a', '.', 'c', 's', 's']]] [])
    [['m']] [['a']] [] true = .found [['a', '.', 's', 'c', 's', 's']] := by decide

/-! ### P̂ holds on the model's own output -/

theorem checkLoad_model (af : AsFound) (fs : Fs) (importer url : Path) (lps : List Path) (fi : Bool) :
    checkLoad af fs importer url lps fi (resolve af fs importer url lps fi)
      (load af fs importer url lps fi).2 = true := by
  rw [C13_confinement_reads]
  unfold checkLoad
  have hconf := C13_confinement af fs importer url lps fi
  simp only [decide_true, Bool.true_and, Bool.and_eq_true, List.all_eq_true, decide_eq_true_eq]
  constructor
  · intro c hc
    simp only [List.mem_append, List.mem_map] at hc
    rcases hc with ⟨q, hq, rfl⟩ | hc
    · simpa using hconf q hq
    · cases hr : resolve af fs importer url lps fi with
      | none => simp [hr] at hc
      | some p => simp [hr] at hc; subst hc; simp
  · cases hr : resolve af fs importer url lps fi <;>
      simp [List.filter_append, List.filter_map, Function.comp_def]

/-- The predicate the check evaluates on grass's own observation (`checkLoad .spec`) holds of
    the specified model's outcome and call sequence, for every file system and input. -/
theorem C13_checkLoad_spec (fs : Fs) (importer url : Path) (lps : List Path) (fi : Bool) :
    checkLoad .spec fs importer url lps fi (resolve .spec fs importer url lps fi)
      (load .spec fs importer url lps fi).2 = true :=
  checkLoad_model .spec fs importer url lps fi

/-- **history independence**: the stylesheet cache of `import_like_node` never changes *which*
    file a URL resolves to — whatever was loaded before, the outcome is that of the stateless
    search, and the calls are the same except that the read may be dropped. -/
theorem C13_cache_does_not_change_the_result (af : AsFound) (fs : Fs) (lps : List Path) (st : Cache)
    (importer url : Path) (fi : Bool) :
    (loadC af fs lps st importer url fi).1.1 = (load af fs importer url lps fi).1 ∧
    ((loadC af fs lps st importer url fi).1.2 = (load af fs importer url lps fi).2 ∨
     (loadC af fs lps st importer url fi).1.2 = (trace af fs importer url lps fi).map .probe) := by
  unfold loadC load trace
  cases h : (resolveLocs fs (locations af importer url lps fi)).1 with
  | none => simp [h]
  | some p => cases hc : st.cached.contains p <;> simp_all

/-- … and the predicate also holds of the cached variant's calls. -/
theorem C13_checkLoad_cached (fs : Fs) (lps : List Path) (st : Cache) (importer url : Path) (fi : Bool) :
    checkLoad .spec fs importer url lps fi (resolve .spec fs importer url lps fi)
      (loadC .spec fs lps st importer url fi).1.2 = true := by
  rcases (C13_cache_does_not_change_the_result .spec fs lps st importer url fi).2 with h | h
  · rw [h]; exact checkLoad_model .spec fs importer url lps fi
  · rw [h]
    unfold checkLoad
    have hconf := C13_confinement .spec fs importer url lps fi
    simp only [decide_true, Bool.true_and, Bool.and_eq_true, List.all_eq_true, decide_eq_true_eq]
    constructor
    · intro c hc
      simp only [List.mem_map] at hc
      obtain ⟨q, hq, rfl⟩ := hc
      simpa using hconf q hq
    · have : ∀ (l : List Probe), (l.filter (fun _ => false)).length = 0 := by
        intro l; induction l <;> simp_all
      simp [List.filter_map, Function.comp_def, this]

/-- a cached stylesheet: the search still runs (three probes), the read is dropped -/
example : (loadC .spec (fsOf [[['s'], ['c', '.', 's', 'c', 's', 's']]] []) []
    ⟨[], [[['s'], ['c', '.', 's', 'c', 's', 's']]]⟩ [['s'], ['a']] [['c']] false).1 =
    (.loaded [['s'], ['c', '.', 's', 'c', 's', 's']] .scss,
     [.probe (.isFile [['s'], ['c', '.', 's', 'a', 's', 's']]), .probe (.isFile [['s'], ['_', 'c', '.', 's', 'a', 's', 's']]),
      .probe (.isFile [['s'], ['c', '.', 's', 'c', 's', 's']])]) := by decide

/-- Conversely `checkLoad .spec` pins the outcome: an observation that passes loaded exactly
    what the specified search resolves to and read nothing else. -/
theorem C13_checkLoad_sound (fs : Fs) (importer url : Path) (lps : List Path) (fi : Bool)
    (res : Option Path) (calls : List Call)
    (h : checkLoad .spec fs importer url lps fi res calls = true) :
    res = resolve .spec fs importer url lps fi ∧
    (∀ p, Call.probe p ∈ calls → p ∈ candidates .spec importer url lps fi) ∧
    (∀ p, Call.read p ∈ calls → res = some p) := by
  unfold checkLoad at h
  simp only [Bool.and_eq_true, decide_eq_true_eq, List.all_eq_true] at h
  obtain ⟨⟨h1, h2⟩, _⟩ := h
  refine ⟨h1, ?_, ?_⟩
  · intro p hp; simpa using h2 _ hp
  · intro p hp; simpa using h2 _ hp

/-! ### syntax from the extension -/

theorem splitLastDot_append (n ext : List Char) (he : splitLastDot ext = none) :
    splitLastDot (n ++ '.' :: ext) = some (n, ext) := by
  induction n with
  | nil => simp [splitLastDot, he]
  | cons c cs ih => simp [splitLastDot, ih]

/-- **syntax-from-extension**: a resolved candidate `n.sass` is parsed as indented Sass,
    `n.css` as plain CSS, `n.scss` as SCSS (`n` non-empty, any dots inside). -/
theorem C13_syntax_of_candidate (dir : Path) (n : Comp) (hn : n ≠ []) :
    syntaxFor (dir ++ [n ++ '.' :: sassExt]) = .sass ∧
    syntaxFor (dir ++ [n ++ '.' :: scssExt]) = .scss ∧
    syntaxFor (dir ++ [n ++ '.' :: cssExt]) = .css := by
  have e : n.isEmpty = false := by cases n <;> simp_all
  refine ⟨?_, ?_, ?_⟩ <;>
    simp only [syntaxFor, splitLast_append, syntaxForName, stemExt] <;>
    rw [splitLastDot_append n _ (by decide)] <;> simp only [e, Bool.false_eq_true, if_false] <;> rfl

example : syntaxFor [['d'], ['f', 'o', 'o', '.', 'b', 'a', 'r', '.', 's', 'a', 's', 's']] = .sass ∧
    syntaxFor [['_', 'n', '.', 'C', 'S', 'S']] = .css ∧ syntaxFor [['n', '.', 't', 'x', 't']] = .scss ∧
    syntaxFor [['.', 's', 'a', 's', 's']] = .scss := by decide

/-! ### plain-CSS imports -/

/-- **plain_css_classification**: `is_plain_css_import` is the documented URL predicate
    (ends in `.css`, or begins `http://`, `https://`, `//`; ASCII case-insensitively) for every
    URL of at least 5 characters, and `false` below that. -/
theorem C13_plain_css_classification (url : List Char) :
    isPlainCssImport url = (documentedPlainUrl url && decide (5 ≤ utf8Len url)) := by
  unfold isPlainCssImport documentedPlainUrl
  by_cases h : utf8Len url < 5
  · have : ¬ 5 ≤ utf8Len url := by omega
    simp [h, this]
  · have : 5 ≤ utf8Len url := by omega
    simp [h, this]

/-- a string has at least as many UTF-8 bytes as characters -/
theorem length_le_utf8Len (s : List Char) : s.length ≤ utf8Len s := by
  induction s with
  | nil => simp [utf8Len]
  | cons c cs ih =>
    have := Char.utf8Size_pos c
    simp only [utf8Len, List.map_cons, List.sum_cons, List.length_cons] at ih ⊢
    omega

/-- `//éa` is 4 characters but 5 bytes: the cut is on bytes. -/
example : isPlainCssImport ['/', '/', 'é', 'a'] = true ∧ isPlainCssImport ['/', '/', 'é'] = false := by decide

example : isPlainCssImport ['h', 't', 't', 'p', ':', '/', '/', 'x'] = true ∧ isPlainCssImport ['/', '/', 'a', 'b', 'c'] = true ∧
    isPlainCssImport ['a', '.', 's', 'c', 's', 's'] = false ∧ isPlainCssImport ['.', 'c', 's', 's'] = false := by decide

/-- The only URLs on which the documented predicate and the code disagree (length < 5) are
    `.css` itself and `//`-prefixed ones such as `//a` — the reference implementation makes the
    same cut. -/
theorem C13_plain_css_short_urls (url : List Char) (hd : documentedPlainUrl url = true)
    (hl : utf8Len url < 5) : lower url = dotCss ∨ startsWith (lower url) slashSlash = true := by
  have hl : url.length < 5 := Nat.lt_of_le_of_lt (length_le_utf8Len url) hl
  unfold documentedPlainUrl at hd
  have hlen : (lower url).length = url.length := by simp [lower]
  generalize lower url = l at hd hlen
  simp only [Bool.or_eq_true] at hd
  rcases hd with ((h | h) | h) | h
  · left
    match l, hlen with
    | [], _ => simp [endsWith, dotCss] at h
    | [a], _ => simp [endsWith, dotCss] at h
    | [a, b], _ => simp [endsWith, dotCss] at h
    | [a, b, c], _ => simp [endsWith, dotCss] at h
    | [a, b, c, d], _ => simp [endsWith, dotCss] at h; obtain ⟨rfl, rfl, rfl, rfl⟩ := h; rfl
    | _ :: _ :: _ :: _ :: _ :: _, hlen => simp at hlen; omega
  · exfalso
    have := List.IsPrefix.length_le (List.isPrefixOf_iff_prefix.mp h)
    simp [httpPre] at this; omega
  · exfalso
    have := List.IsPrefix.length_le (List.isPrefixOf_iff_prefix.mp h)
    simp [httpsPre] at this; omega
  · right; exact h

/-- An `@import` argument is a plain CSS import exactly in the documented cases: `url(...)`,
    media/supports modifiers, or a plain URL. -/
theorem C13_import_kind (isUrlFn hasModifiers : Bool) (url : List Char) :
    importKind isUrlFn hasModifiers url = .plainCss ↔
      (isUrlFn = true ∨ hasModifiers = true ∨ (documentedPlainUrl url = true ∧ 5 ≤ utf8Len url)) := by
  unfold importKind
  rw [C13_plain_css_classification]
  cases isUrlFn <;> cases hasModifiers <;> cases documentedPlainUrl url <;> simp

/-- Plain CSS imports never touch the file system. -/
theorem C13_plain_css_no_fs_calls (af : AsFound) (fs : Fs) (importer : Path) (lps : List Path)
    (isUrlFn hasModifiers : Bool) (urlText : List Char) (url : Path)
    (h : importKind isUrlFn hasModifiers urlText = .plainCss) :
    importCalls af fs importer lps isUrlFn hasModifiers urlText url = [] := by
  simp [importCalls, h]

example : importKind false false ['a', '.', 'C', 'S', 'S'] = .plainCss := by decide
example : importKind false true ['a'] = .plainCss := by decide
example : importKind false false ['a', '.', 's', 'c', 's', 's'] = .sass := by decide


/-! ### parser level: the kind of one `@import` argument, from its text -/

theorem scanString_spec (q : Char) (url rest : List Char)
    (hurl : ∀ c ∈ url, c ≠ q ∧ c ≠ '\n' ∧ c ≠ '\r' ∧ c ≠ '\\') :
    scanString q (url ++ q :: rest) = some (url, rest) := by
  induction url with
  | nil => simp [scanString]
  | cons c cs ih =>
    obtain ⟨h1, h2, h3, h4⟩ := hurl c (by simp)
    have := ih (fun d hd => hurl d (by simp [hd]))
    simp [scanString, h1, h2, h3, h4, this]

theorem skipWs_spec (ws after : List Char) (hws : ∀ c ∈ ws, isWs c = true)
    (hafter : ∀ c, after.head? = some c → isWs c = false) : skipWs (ws ++ after) = after := by
  induction ws with
  | nil =>
    cases after with
    | nil => rfl
    | cons c cs => simp [skipWs, hafter c rfl]
  | cons c cs ih =>
    simp [skipWs, hws c (by simp), ih (fun d hd => hws d (by simp [hd]))]

/-- **import_argument_classification** (`parse_import_argument` on the text of a string argument):
    for every argument written as a quoted string (either quote; any characters except that quote, a
    backslash or a line break), white space, and then either nothing / a `,` / or the first character
    of modifiers, the parser makes it a plain CSS import exactly when `importKind` says so — i.e.
    (theorem `C13_import_kind`) when modifiers follow or the URL is a documented plain URL — and
    otherwise a Sass import of exactly the quoted text. -/
theorem C13_import_argument_classification (q : Char) (hq : q = '"' ∨ q = '\'') (url ws after : List Char)
    (hurl : ∀ c ∈ url, c ≠ q ∧ c ≠ '\n' ∧ c ≠ '\r' ∧ c ≠ '\\')
    (hws : ∀ c ∈ ws, isWs c = true)
    (hafter : ∀ c, after.head? = some c → isWs c = false ∧ c ≠ '/') :
    (parseImportArg (q :: (url ++ q :: (ws ++ after)))).map (·.1) =
      some (match importKind false (hasModifiersAt after) url with
            | .plainCss => ArgKind.plain
            | .sass => ArgKind.sass url) := by
  have hs := scanString_spec q url (ws ++ after) hurl
  have hk := skipWs_spec ws after hws (fun c hc => (hafter c hc).1)
  have hslash : (after.head? == some '/') = false := by
    cases after with
    | nil => rfl
    | cons c cs => simpa using (hafter c rfl).2
  unfold parseImportArg importKind
  rcases hq with rfl | rfl <;>
    (simp only [hs, hk, hslash]
     cases hasModifiersAt after <;> cases isPlainCssImport url <;> simp)

example : parseImportArg "\"a.scss\" , \"b\"".toList = some (.sass "a.scss".toList, ", \"b\"".toList) := by decide
example : (parseImportArg "'a' screen".toList).map (·.1) = some .plain := by decide
example : (parseImportArg "\"a.css\"".toList).map (·.1) = some .plain := by decide
example : parseImportArgs 40 "\"a\", 'b.css', url(x) screen".toList = some [.sass ['a'], .plain, .plain] := by decide

/-- **url() is never loaded**: an argument that begins with `u`/`U` is either rejected or a plain CSS
    import, whatever follows (`parse_import_argument` takes the `parse_dynamic_url` branch). -/
theorem C13_import_argument_url_function (c : Char) (hc : c = 'u' ∨ c = 'U') (cs : List Char)
    (r : ArgKind × List Char) (h : parseImportArg (c :: cs) = some r) : r.1 = .plain := by
  unfold parseImportArg at h
  have hcu : (c == 'u' || c == 'U') = true := by rcases hc with rfl | rfl <;> decide
  simp only [hcu, if_true] at h
  repeat' split at h
  all_goals first
    | (cases h; rfl)
    | (simp at h)

example : (parseImportArg "URL(foo.scss)".toList).map (·.1) = some .plain := by decide

/-! ### `find_import` on raw spellings (`.` / empty segments, trailing slash, absolute paths) -/

/-- **confinement, any spelling**: every `is_file` / `is_dir` call of the search over Rust's path
    operations is one of `candidatesR`. -/
theorem C13_raw_confinement (fs : Fs) (cur url : Path) (lps : List Path) (fi : Bool) :
    ∀ c ∈ traceR fs cur url lps fi, c ∈ candidatesR cur url lps fi :=
  resolveLocs_calls fs _

/-- … and outcome and call sequence depend only on the Fs's answers on those candidates. -/
theorem C13_raw_depends_only_on_candidates (fs fs' : Fs) (cur url : Path) (lps : List Path) (fi : Bool)
    (h : ∀ c ∈ candidatesR cur url lps fi, agreeOn fs fs' c) :
    loadR fs cur url lps fi = loadR fs' cur url lps fi := by
  unfold loadR loadCR
  rw [resolveLocs_congr fs fs' _ h]

/-- The result is the first existing file among the reachable candidates, in search order; the load
    fails exactly when none of them exists. -/
theorem C13_raw_resolve_eq_find (fs : Fs) (cur url : Path) (lps : List Path) (fi : Bool) :
    resolveR fs cur url lps fi = ((locsR cur url lps fi).flatMap (Loc.eligible fs)).find? fs.isFile :=
  resolveLocs_fst fs _

/-- **confinement (reads), any spelling**: a load is the probes of the search followed by exactly
    one read, of the resolved file; a failed load reads nothing. -/
theorem C13_raw_confinement_reads (fs : Fs) (cur url : Path) (lps : List Path) (fi : Bool) :
    loadR fs cur url lps fi =
      match resolveR fs cur url lps fi with
      | some p => (.loaded p (syntaxForR p), (traceR fs cur url lps fi).map .probe ++ [.read p])
      | none => (.cantFind, (traceR fs cur url lps fi).map .probe) := by
  unfold loadR loadCR resolveR traceR
  cases h : (resolveLocs fs (locsR cur url lps fi)).1 <;> simp [Cache.empty, h]

theorem C13_raw_no_match_is_error (fs : Fs) (cur url : Path) (lps : List Path) (fi : Bool) :
    (loadR fs cur url lps fi).1 = .cantFind ↔
      ∀ p ∈ (locsR cur url lps fi).flatMap (Loc.eligible fs), fs.isFile p = false := by
  rw [C13_raw_confinement_reads, C13_raw_resolve_eq_find]
  cases h2 : ((locsR cur url lps fi).flatMap (Loc.eligible fs)).find? fs.isFile with
  | some p =>
    have hp := List.find?_some h2
    have hm := List.mem_of_find?_eq_some h2
    constructor
    · intro h; simp at h
    · intro h; have := h p hm; simp [hp] at this
  | none =>
    have := List.find?_eq_none.mp h2
    constructor
    · intro _ p hp; simpa using this p hp
    · intro _; rfl

example : (loadR (fsOfR []) [['m']] [['.'], ['a']] [[['l'], []]] true).1 = .cantFind := by decide

/-- P̂ (`checkLoadR`, the predicate the check evaluates on grass's own observation) holds of the
    model's own outcome and calls. -/
theorem C13_raw_checkLoad (fs : Fs) (cur url : Path) (lps : List Path) (fi : Bool) :
    checkLoadR fs cur url lps fi (resolveR fs cur url lps fi) (loadR fs cur url lps fi).2 = true := by
  have hconf := C13_raw_confinement fs cur url lps fi
  unfold traceR at hconf
  unfold checkLoadR loadR loadCR resolveR
  simp only [decide_true, Bool.true_and, Bool.and_eq_true, List.all_eq_true, decide_eq_true_eq]
  cases hr : (resolveLocs fs (locsR cur url lps fi)).1 with
  | none =>
    constructor
    · intro c hc
      simp only [List.mem_map] at hc
      obtain ⟨q, hq, rfl⟩ := hc
      simpa using hconf q hq
    · simp [List.filter_map, Function.comp_def]
  | some p =>
    simp only [Cache.empty, List.contains_nil, Bool.false_eq_true, if_false]
    constructor
    · intro c hc
      simp only [List.mem_append, List.mem_map, List.mem_singleton] at hc
      rcases hc with ⟨q, hq, rfl⟩ | rfl
      · simpa using hconf q hq
      · simp
    · simp [List.filter_append, List.filter_map, Function.comp_def]

/-- `@import "a//b"` from `sub/main.scss`: the doubled slash is kept in the path itself, dropped in
    the partial (`Path::parent`), and the in-memory Fs finds `sub/a/b.scss` under either spelling. -/
example : (loadR (fsOfR [[['s', 'u', 'b'], ['a'], ['_', 'b', '.', 's', 'a', 's', 's']]]) [['s', 'u', 'b'], ['m']]
    [['a'], [], ['b']] [] false).2 =
    [.probe (.isFile [['s', 'u', 'b'], ['a'], [], ['b', '.', 's', 'a', 's', 's']]),
     .probe (.isFile [['s', 'u', 'b'], ['a'], ['_', 'b', '.', 's', 'a', 's', 's']]),
     .read [['s', 'u', 'b'], ['a'], ['_', 'b', '.', 's', 'a', 's', 's']]] := by decide

/-- an absolute URL ignores the importing file's directory; a trailing slash keeps the name empty -/
example : (candidatesR [['s'], ['m']] [[], ['q', '.', 's', 'c', 's', 's']] [] false) =
    [.isFile [[], ['q', '.', 's', 'c', 's', 's']], .isFile [[], ['_', 'q', '.', 's', 'c', 's', 's']]] := by decide
example : (candidatesR [['m']] [['x'], []] [] false).take 2 =
    [.isFile [['x'], ['.', 's', 'a', 's', 's']], .isFile [['x'], ['_', '.', 's', 'a', 's', 's']]] := by decide

/-- **first location wins, any number of load paths** (index form of `C13_load_paths_in_order`):
    if nothing matches relative to the importing file nor in load paths `0 … i-1` and something matches
    in load path `i`, the result is one of load path `i`'s candidates — whatever the later ones hold. -/
theorem C13_first_location_wins_nth (fs : Fs) (hc : fs.coherent) (importer url : Path) (lps : List Path)
    (i : Nat) (hi : i < lps.length) (fi : Bool)
    (hrel : ∀ p ∈ (locFor .spec fi importer.dropLast url).filePaths, fs.isFile p = false)
    (hpre : ∀ j, (hj : j < i) → ∀ p ∈ (locFor .spec fi (lps[j]'(Nat.lt_trans hj hi)) url).filePaths, fs.isFile p = false)
    (h : ∃ p ∈ (locFor .spec fi lps[i] url).filePaths, fs.isFile p = true) :
    ∃ r ∈ (locFor .spec fi lps[i] url).filePaths, resolve .spec fs importer url lps fi = some r := by
  have hsplit : lps = lps.take i ++ lps[i] :: lps.drop (i + 1) := by
    rw [List.getElem_cons_drop hi, List.take_append_drop]
  have := C13_load_paths_in_order fs hc importer url (lps.take i) (lps.drop (i + 1)) lps[i] fi hrel
    (by
      intro lp' hlp' p hp
      obtain ⟨j, hj, rfl⟩ := List.getElem_of_mem hlp'
      have hj' : j < i := by simp at hj; omega
      have e : (lps.take i)[j] = lps[j]'(Nat.lt_trans hj' hi) := by simp
      rw [e] at hp
      exact hpre j hj' p hp) h
  rwa [← hsplit] at this

example : resolve .spec (fsOf [[['k'], ['a', '.', 's', 'c', 's', 's']], [['z'], ['a', '.', 'c', 's', 's']]] [])
    [['m']] [['a']] [[['l']], [['j']], [['k']], [['z']]] false = some [['k'], ['a', '.', 's', 'c', 's', 's']] := by decide

/-! ### the raw model and the component-level model coincide on plain spellings -/

/-- no empty and no `.` segment -/
def nice (p : Path) : Prop := ∀ c ∈ p, isBlank c = false

instance : DecidablePred nice := fun p => inferInstanceAs (Decidable (∀ c ∈ p, isBlank c = false))

theorem isBlank_of_length (c : Comp) (h : 2 ≤ c.length) : isBlank c = false := by
  match c, h with
  | _ :: _ :: _, _ => simp [isBlank, dot]

theorem ne_dotdot_of_length (c : Comp) (h : 3 ≤ c.length) : c ≠ dotdot := by
  intro e; subst e; simp [dotdot] at h

theorem nonempty_of_not_blank {c : Comp} (h : isBlank c = false) : c ≠ [] := by
  intro e; subst e; simp [isBlank] at h

theorem hasRootR_nice {p : Path} (h : nice p) : hasRootR p = false := by
  unfold hasRootR
  split
  · have := h [] (by simp); simp [isBlank] at this
  · rfl

theorem hasCurDirR_nice {p : Path} (h : nice p) : hasCurDirR p = false := by
  unfold hasCurDirR
  cases p with
  | nil => simp
  | cons c cs =>
    have := h c (by simp)
    simp only [isBlank, Bool.or_eq_false_iff] at this
    simp [this.2]

theorem bodyR_nice {p : Path} (h : nice p) : bodyR p = p := by
  simp [bodyR, prefixLenR, hasRootR_nice h, hasCurDirR_nice h]

theorem stripBlank_snoc (d : Path) (n : Comp) (hn : isBlank n = false) : stripBlank (d ++ [n]) = d ++ [n] := by
  simp [stripBlank, List.reverse_append, hn]

theorem stripBlank_nice {d : Path} (h : nice d) : stripBlank d = d := by
  rcases List.eq_nil_or_concat d with rfl | ⟨d', n, rfl⟩
  · rfl
  · simpa using stripBlank_snoc d' n (h n (by simp))

theorem nice_left {d : Path} {n : Comp} (h : nice (d ++ [n])) : nice d := fun c hc => h c (by simp [hc])
theorem nice_last {d : Path} {n : Comp} (h : nice (d ++ [n])) : isBlank n = false := h n (by simp)
theorem nice_append {a b : Path} (ha : nice a) (hb : nice b) : nice (a ++ b) := by
  intro c hc; rcases List.mem_append.mp hc with h | h
  · exact ha c h
  · exact hb c h

theorem lastRealR_snoc {d : Path} {n : Comp} (h : nice (d ++ [n])) : lastRealR (d ++ [n]) = some (d, n) := by
  simp [lastRealR, bodyR_nice h, stripBlank_snoc d n (nice_last h)]

theorem parentR_snoc {d : Path} {n : Comp} (h : nice (d ++ [n])) : parentR (d ++ [n]) = some d := by
  simp [parentR, lastRealR_snoc h, rebuildR, hasRootR_nice h, hasCurDirR_nice h, stripBlank_nice (nice_left h)]

theorem fileNameR_snoc {d : Path} {n : Comp} (h : nice (d ++ [n])) (hn : n ≠ dotdot) :
    fileNameR (d ++ [n]) = some n := by
  simp [fileNameR, lastRealR_snoc h, hn]

theorem joinR_nice {a b : Path} (ha : nice a) (hb : nice b) (hne : b ≠ []) : joinR a b = a ++ b := by
  unfold joinR
  rw [hasRootR_nice hb]
  rcases List.eq_nil_or_concat a with rfl | ⟨a', l, rfl⟩
  · simp
  · rw [List.concat_eq_append] at ha ⊢
    have hl := nonempty_of_not_blank (nice_last ha)
    have e : b.isEmpty = false := by cases b <;> simp_all
    simp [e, hl]

theorem addExtR_snoc (d : Path) (n e : Comp) : addExtR (d ++ [n]) e = d ++ [n ++ '.' :: e] := by
  simp [addExtR]

theorem tryPathR_snoc {D : Path} {m : Comp} (h : nice (D ++ [m])) (hm : m ≠ dotdot) :
    tryPathR (D ++ [m]) = tryPath D m := by
  have hj : joinR D [('_' :: m)] = D ++ [('_' :: m)] :=
    joinR_nice (nice_left h) (by intro c hc; simp at hc; subst hc; exact isBlank_of_length _ (by
      have := nonempty_of_not_blank (nice_last h); cases m <;> simp_all)) (by simp)
  simp [tryPathR, tryPath, parentR_snoc h, fileNameR_snoc h hm, hj]

theorem nice_name {D : Path} {base : Comp} (h : nice (D ++ [base])) (sfx : Comp) :
    nice (D ++ [base ++ '.' :: sfx]) := by
  apply nice_append (nice_left h)
  intro c hc; simp at hc; subst hc
  have := List.length_pos_iff.mpr (nonempty_of_not_blank (nice_last h))
  exact isBlank_of_length _ (by simp only [List.length_append, List.length_cons]; omega)

theorem name_ne_dotdot {base : Comp} (hb : base ≠ []) (sfx : Comp) (hs : sfx ≠ []) : base ++ '.' :: sfx ≠ dotdot := by
  apply ne_dotdot_of_length
  have h1 := List.length_pos_iff.mpr hb
  have h2 := List.length_pos_iff.mpr hs
  simp only [List.length_append, List.length_cons]
  omega

theorem tryPathR_ext {D : Path} {base : Comp} (h : nice (D ++ [base])) (sfx : Comp) (hs : sfx ≠ []) :
    tryPathR (addExtR (D ++ [base]) sfx) = tryPath D (base ++ '.' :: sfx) := by
  rw [addExtR_snoc]
  exact tryPathR_snoc (nice_name h sfx) (name_ne_dotdot (nonempty_of_not_blank (nice_last h)) sfx hs)

theorem withExtensionsR_snoc {D : Path} {base : Comp} (h : nice (D ++ [base])) (imp : Bool) :
    withExtensionsR imp (D ++ [base]) = withExtensions .spec imp D base := by
  have e1 := tryPathR_ext h sassExt (by decide)
  have e2 := tryPathR_ext h scssExt (by decide)
  have e3 := tryPathR_ext h cssExt (by decide)
  have e4 := tryPathR_ext h (importWord ++ '.' :: sassExt) (by decide)
  have e5 := tryPathR_ext h (importWord ++ '.' :: scssExt) (by decide)
  have e6 := tryPathR_ext h (importWord ++ '.' :: cssExt) (by decide)
  cases imp <;>
    simp [withExtensionsR, withExtensions, extGroupsR, extGroups, addExt, AsFound.spec, e1, e2, e3, e4, e5, e6,
      importDot, List.append_assoc]

theorem stemExt_stem_ne_nil {n s e : Comp} (h : stemExt n = some (s, e)) : s ≠ [] := by
  unfold stemExt at h
  split at h
  · rename_i s' e' _
    split at h
    · cases h
    · cases h; intro e; simp_all
  · cases h

theorem explicitExt_stemExt {n s e : Comp} (h : explicitExt n = some (s, e)) :
    stemExt n = some (s, e) ∧ isSourceExt e = true := by
  unfold explicitExt at h
  split at h
  · rename_i s' e' hs
    split at h
    · cases h; exact ⟨hs, by assumption⟩
    · cases h
  · cases h

theorem extension_filter (n : Comp) :
    ((stemExt n).map (·.2)).filter isSourceExt = (explicitExt n).map (·.2) := by
  unfold explicitExt
  cases hs : stemExt n with
  | none => simp
  | some x =>
    obtain ⟨s, e⟩ := x
    cases he : isSourceExt e <;> simp [Option.filter, he]

theorem withExtensionR_snoc {D : Path} {base stem ext : Comp} (h : nice (D ++ [base])) (hb : base ≠ dotdot)
    (hs : stemExt base = some (stem, ext)) (e : Comp) :
    withExtensionR (D ++ [base]) e = D ++ [stem ++ '.' :: e] := by
  simp [withExtensionR, lastRealR_snoc h, hb, hs, prefixLenR, hasRootR_nice h, hasCurDirR_nice h]

theorem explicitR_snoc {D : Path} {base stem ext : Comp} (h : nice (D ++ [base])) (hb : base ≠ dotdot)
    (hx : explicitExt base = some (stem, ext)) (imp : Bool) :
    explicitR imp ext (D ++ [base]) =
      (if imp then [tryPath D (importOnlyExplicit .spec stem ext)] else []) ++ [tryPath D base] := by
  obtain ⟨hs, _⟩ := explicitExt_stemExt hx
  have hstem := stemExt_stem_ne_nil hs
  have hn : nice (D ++ [stem ++ '.' :: (importWord ++ '.' :: ext)]) := by
    apply nice_append (nice_left h)
    intro c hc; simp at hc; subst hc
    have := List.length_pos_iff.mpr hstem
    exact isBlank_of_length _ (by simp only [List.length_append, List.length_cons]; omega)
  have e1 := tryPathR_snoc hn (name_ne_dotdot hstem _ (by simp [importWord]))
  have e2 := tryPathR_snoc h hb
  cases imp <;>
    simp [explicitR, withExtensionR_snoc h hb hs, importOnlyExplicit, AsFound.spec, importDot, e1, e2, List.append_assoc]

/-- **the raw model is the component-level model on plain spellings**: when the importing file,
    the URL and the load paths have no empty and no `.` segment (and the URL's last segment is not
    `..`), `find_import` over Rust's path operations searches exactly the locations, groups and index
    directories of the documented search — so every theorem above about `locations .spec` /
    `resolve .spec` / `candidates .spec` is a theorem about the code as modelled on raw spellings. -/
theorem C13_raw_agrees_on_plain_spellings (idir : Path) (iname : Comp) (udir : Path) (base : Comp)
    (lps : List Path) (fi : Bool)
    (hi : nice (idir ++ [iname])) (hu : nice (udir ++ [base])) (hb : base ≠ dotdot)
    (hl : ∀ lp ∈ lps, nice lp) :
    locsR (idir ++ [iname]) (udir ++ [base]) lps fi =
      locations .spec (idir ++ [iname]) (udir ++ [base]) lps fi := by
  have hne : udir ++ [base] ≠ [] := by simp
  have hrel : joinR idir (udir ++ [base]) = (idir ++ udir) ++ [base] := by
    rw [joinR_nice (nice_left hi) hu hne, List.append_assoc]
  have hlp : ∀ lp ∈ lps, joinR lp (udir ++ [base]) = (lp ++ udir) ++ [base] := by
    intro lp h; rw [joinR_nice (hl lp h) hu hne, List.append_assoc]
  have hnrel : nice ((idir ++ udir) ++ [base]) := by
    rw [List.append_assoc]; exact nice_append (nice_left hi) hu
  have hnlp : ∀ lp ∈ lps, nice ((lp ++ udir) ++ [base]) := by
    intro lp h; rw [List.append_assoc]; exact nice_append (hl lp h) hu
  have hroot : hasRootR (udir ++ [base]) = false := hasRootR_nice hu
  have hext : (extensionR ((idir ++ udir) ++ [base])).filter isSourceExt = (explicitExt base).map (·.2) := by
    simp only [extensionR, fileNameR_snoc hnrel hb, Option.bind_some]
    exact extension_filter base
  unfold locsR locations
  simp only [hroot, parentR_snoc hi, Option.getD_some, hrel, hext, AsFound.spec, wantsImportOnly,
    Bool.or_false, Bool.false_and, Bool.false_eq_true, if_false, List.dropLast_concat, List.map_cons, List.map_map]
  cases hx : explicitExt base with
  | none =>
    simp only [Option.map_none, List.cons.injEq]
    refine ⟨?_, ?_⟩
    · have hidx : nice (((idir ++ udir) ++ [base]) ++ [indexName]) :=
        nice_append hnrel (by intro c hc; simp at hc; subst hc; decide)
      rw [joinR_nice hnrel (by intro c hc; simp at hc; subst hc; decide) (by simp),
        withExtensionsR_snoc hnrel, withExtensionsR_snoc hidx]
      simp [locFor, splitLast_append, hx, AsFound.spec]
    · apply List.map_congr_left
      intro lp h
      have hidx : nice (((lp ++ udir) ++ [base]) ++ [indexName]) :=
        nice_append (hnlp lp h) (by intro c hc; simp at hc; subst hc; decide)
      simp only [Function.comp, hlp lp h]
      rw [joinR_nice (hnlp lp h) (by intro c hc; simp at hc; subst hc; decide) (by simp),
        withExtensionsR_snoc (hnlp lp h), withExtensionsR_snoc hidx]
      simp [locFor, splitLast_append, hx, AsFound.spec]
  | some x =>
    obtain ⟨stem, ext⟩ := x
    simp only [Option.map_some, List.cons.injEq]
    refine ⟨?_, ?_⟩
    · rw [explicitR_snoc hnrel hb hx]
      simp [locFor, splitLast_append, hx, AsFound.spec]
    · apply List.map_congr_left
      intro lp h
      simp only [Function.comp, hlp lp h]
      rw [explicitR_snoc (hnlp lp h) hb hx]
      simp [locFor, splitLast_append, hx, AsFound.spec]

/-- hence the same result, the same calls and the same candidates -/
theorem C13_raw_resolve_eq_spec (fs : Fs) (idir : Path) (iname : Comp) (udir : Path) (base : Comp)
    (lps : List Path) (fi : Bool)
    (hi : nice (idir ++ [iname])) (hu : nice (udir ++ [base])) (hb : base ≠ dotdot)
    (hl : ∀ lp ∈ lps, nice lp) :
    resolveR fs (idir ++ [iname]) (udir ++ [base]) lps fi = resolve .spec fs (idir ++ [iname]) (udir ++ [base]) lps fi ∧
    traceR fs (idir ++ [iname]) (udir ++ [base]) lps fi = trace .spec fs (idir ++ [iname]) (udir ++ [base]) lps fi ∧
    candidatesR (idir ++ [iname]) (udir ++ [base]) lps fi = candidates .spec (idir ++ [iname]) (udir ++ [base]) lps fi := by
  unfold resolveR resolve traceR trace candidatesR candidates
  rw [C13_raw_agrees_on_plain_spellings idir iname udir base lps fi hi hu hb hl]
  exact ⟨rfl, rfl, rfl⟩

example : nice [['s', 'u', 'b'], ['m', '.', 's', 'c', 's', 's']] := by decide
example : locsR [['s'], ['m']] [['d'], ['f', 'o', 'o', '.', 'b', 'a', 'r']] [[['l']]] true =
    locations .spec [['s'], ['m']] [['d'], ['f', 'o', 'o', '.', 'b', 'a', 'r']] [[['l']]] true :=
  C13_raw_agrees_on_plain_spellings [['s']] ['m'] [['d']] ['f', 'o', 'o', '.', 'b', 'a', 'r'] [[['l']]] true
    (by decide) (by decide) (by decide) (by decide)
/-- … and it is not the same search on other spellings: a doubled slash stays in the probe. -/
example : candidatesR [['s'], ['m']] [['d'], [], ['n']] [] false ≠ candidates .spec [['s'], ['m']] [['d'], ['n']] [] false := by
  decide

/-! ### where the code as it stands can differ from the specification, and that it does -/

/-- The three as-found switches only matter for `@use`/`@forward` (D9) and for URLs with an
    explicit extension (D10, D8b): an `@import` of a URL without explicit extension probes the
    same candidates in both variants. -/
theorem C13_asFound_same_for_plain_import (importer url : Path) (lps : List Path)
    (hx : urlExplicit url = false) :
    candidates .current importer url lps true = candidates .spec importer url lps true := by
  unfold candidates locations
  simp only [hx, AsFound.current, AsFound.spec, wantsImportOnly, Bool.and_false, Bool.or_false,
    Bool.or_true, Bool.false_eq_true, if_false]
  have : ∀ root, locFor ⟨true, true, true, false⟩ true root url = locFor ⟨false, false, false, false⟩ true root url := by
    intro root
    unfold locFor
    rcases hs : splitLast url with _ | ⟨udir, base⟩
    · rfl
    · simp only [urlExplicit, hs] at hx
      cases he : explicitExt base with
      | none => simp [he, withExtensions, extGroups, addExt]
      | some x => simp [he] at hx
  simp [this]

def wFs (files : List Path) : Fs := fsOf files []

/-- D9: `@use "u"` with `u.import.scss` and `u.scss` present loads `u.import.scss`. -/
theorem C13_asFound_D9_use_loads_import_only :
    let fs := wFs [[['u', '.', 'i', 'm', 'p', 'o', 'r', 't', '.', 's', 'c', 's', 's']], [['u', '.', 's', 'c', 's', 's']]]
    resolve .current fs [['m']] [['u']] [] false = some [['u', '.', 'i', 'm', 'p', 'o', 'r', 't', '.', 's', 'c', 's', 's']] ∧
    resolve .spec fs [['m']] [['u']] [] false = some [['u', '.', 's', 'c', 's', 's']] ∧
    resolve { AsFound.current with d9 := false } fs [['m']] [['u']] [] false = some [['u', '.', 's', 'c', 's', 's']] := by
  decide

/-- D10: `@import "q.scss"` with `q.scss` only in a load path is not found. -/
theorem C13_asFound_D10_explicit_skips_load_paths :
    let fs := wFs [[['l'], ['q', '.', 's', 'c', 's', 's']]]
    resolve .current fs [['m']] [['q', '.', 's', 'c', 's', 's']] [[['l']]] true = none ∧
    resolve .spec fs [['m']] [['q', '.', 's', 'c', 's', 's']] [[['l']]] true = some [['l'], ['q', '.', 's', 'c', 's', 's']] ∧
    resolve { AsFound.current with d10 := false } fs [['m']] [['q', '.', 's', 'c', 's', 's']] [[['l']]] true
      = some [['l'], ['q', '.', 's', 'c', 's', 's']] := by
  decide

/-- D8b: `@import "q.scss"` prefers a file called `q..importscss` and ignores `q.import.scss`. -/
theorem C13_asFound_D8b_malformed_import_only_name :
    let fs := wFs [[['q', '.', '.', 'i', 'm', 'p', 'o', 'r', 't', 's', 'c', 's', 's']],
                   [['q', '.', 'i', 'm', 'p', 'o', 'r', 't', '.', 's', 'c', 's', 's']], [['q', '.', 's', 'c', 's', 's']]]
    resolve .current fs [['m']] [['q', '.', 's', 'c', 's', 's']] [] true
      = some [['q', '.', '.', 'i', 'm', 'p', 'o', 'r', 't', 's', 'c', 's', 's']] ∧
    resolve .spec fs [['m']] [['q', '.', 's', 'c', 's', 's']] [] true
      = some [['q', '.', 'i', 'm', 'p', 'o', 'r', 't', '.', 's', 'c', 's', 's']] ∧
    resolve { AsFound.current with d8b := false } fs [['m']] [['q', '.', 's', 'c', 's', 's']] [] true
      = some [['q', '.', 'i', 'm', 'p', 'o', 'r', 't', '.', 's', 'c', 's', 's']] := by
  decide

/-- D8 (fixed in 9b563f8): with `with_extension`, `@import "foo.bar"` loaded `foo.scss`. -/
theorem C13_asFound_D8_extension_replaced :
    let fs := wFs [[['f', 'o', 'o', '.', 's', 'c', 's', 's']]]
    resolve { AsFound.spec with d8 := true } fs [['m']] [['f', 'o', 'o', '.', 'b', 'a', 'r']] [] true
      = some [['f', 'o', 'o', '.', 's', 'c', 's', 's']] ∧
    resolve .spec fs [['m']] [['f', 'o', 'o', '.', 'b', 'a', 'r']] [] true = none := by
  decide

end Grass.Import
