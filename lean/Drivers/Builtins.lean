import Grass.Builtins
/- Per-core driver: one request line in, one answer line out; first token must be `blt`. -/
partial def loop (hin hout : IO.FS.Stream) : IO Unit := do
  let line ← hin.getLine
  if line.isEmpty then return ()
  match Grass.Proto.tokens line with
  | "blt" :: r => hout.putStrLn (Grass.Builtins.handle r)
  | _ => hout.putStrLn "bad-op"
  loop hin hout

def main : IO Unit := do
  let hin ← IO.getStdin
  let hout ← IO.getStdout
  loop hin hout
  hout.flush
