import Grass.Proto
import Grass.Media
import Grass.Num
import Grass.Units
import Grass.Value
import Grass.Builtins
import Grass.Color
import Grass.Calc
import Grass.Import
import Grass.Scope
import Grass.Eval
import Grass.CssTree
import Grass.Serialize
import Grass.Selector
import Grass.Extend
import Grass.Module
import Grass.Lexer
import Grass.Diag
import Grass.Cli
import Grass.Interner

/-
  DRIVER.  One request per input line, one answer per output line:
  `<core> <op> <args…>`; unknown cores/ops answer `bad-op` (never a default).
  Each core exports `handle : List String → String`.
-/
open Grass

def dispatch (toks : List String) : String :=
  match toks with
  | "ping" :: _ => "pong"
  | "media" :: r => Media.handle r
  | "num" :: r => Num.handle r
  | "units" :: r => Units.handle r
  | "value" :: r => Value.handle r
  | "blt" :: r => Builtins.handle r
  | "color" :: r => Color.handle r
  | "calc" :: r => Calc.handle r
  | "import" :: r => Import.handle r
  | "scope" :: r => Scope.handle r
  | "eval" :: r => Eval.handle r
  | "csstree" :: r => CssTree.handle r
  | "ser" :: r => Serialize.handle r
  | "sel" :: r => Selector.handle r
  | "ext" :: r => Extend.handle r
  | "module" :: r => Module.handle r
  | "lex" :: r => Lexer.handle r
  | "diag" :: r => Diag.handle r
  | "cli" :: r => Cli.handle r
  | "intern" :: r => Interner.handle r
  | _ => "bad-op"

partial def loop (hin : IO.FS.Stream) (hout : IO.FS.Stream) : IO Unit := do
  let line ← hin.getLine
  if line.isEmpty then return ()
  hout.putStrLn (dispatch (Proto.tokens line))
  loop hin hout

def main : IO Unit := do
  let hin ← IO.getStdin
  let hout ← IO.getStdout
  loop hin hout
  hout.flush
