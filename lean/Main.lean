import Grass.Proto
import Grass.Media

/-
  DRIVER.  One request per input line, one answer per output line.
  `<core> <op> <args…>`; unknown cores/ops answer `bad-op` (never a default).
-/
open Grass

def dispatch (toks : List String) : String :=
  match toks with
  | "ping" :: _ => "pong"
  | "media" :: rest => Media.handle rest
  | _ => "bad-op"

partial def loop (hin : IO.FS.Stream) (hout : IO.FS.Stream) : IO Unit := do
  let line ← hin.getLine
  if line.isEmpty then return ()
  hout.putStrLn (dispatch (Proto.tokens line))
  loop hin hout

def main : IO Unit := do
  let hin ← IO.getStdin
  let hout ← IO.getStdout
  loop hin hout
  hout.flush
